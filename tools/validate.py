#!/usr/bin/env python3
"""Validate MANIFEST.json and evidence/*.json against the schemas (run with python3-vt)."""
import glob
import json
import sys

import jsonschema

ok = True
man = json.load(open("/verif/MANIFEST.json"))
jsonschema.validate(man, json.load(open("/root/.vp/MANIFEST.schema.json")))
print("MANIFEST ok:", len(man["checks"]), "checks")
es = json.load(open("/root/.vp/EVIDENCE.schema.json"))
for f in sorted(glob.glob("/verif/evidence/*.json")):
    try:
        jsonschema.validate(json.load(open(f)), es)
        print("ok", f)
    except jsonschema.ValidationError as e:
        ok = False
        print("INVALID", f, e.message)
sys.exit(0 if ok else 1)
