#!/bin/bash
# usage: tools/run_some.sh <tier> <check> [<check> ...]   - like run_all.sh for a chosen list, in the given order
tier=$1; shift
cd /verif
for p in "$@"; do
  s=$(date +%s)
  out=$(/venv/bin/python -m mc check $p --tier $tier 2>&1); rc=$?
  e=$(date +%s)
  echo "$p rc=$rc $((e-s))s :: $(echo "$out" | grep -c '^KNOWN-FINDING') known lines :: $(echo "$out" | tail -n 1 | cut -c1-160)"
  if [ $rc -ne 0 ]; then echo "$out" | grep -A1 VIOLATION | head -n 6; fi
done
