#!/bin/bash
# Run every registered check at the given tier (default quick); summarise exit codes.
tier=${1:-quick}
cd /verif
rc_all=0
for p in C01 C02 C03 C04 C05 C06 C07 C08 C09 C10 C11 C12 C13 C14 C15 C16 C17 C18; do
  s=$(date +%s)
  out=$(/venv/bin/python -m mc check $p --tier $tier 2>&1); rc=$?
  e=$(date +%s)
  echo "$p rc=$rc $((e-s))s :: $(echo "$out" | grep -c '^KNOWN-FINDING') known lines :: $(echo "$out" | tail -n 1 | cut -c1-160)"
  if [ $rc -ne 0 ]; then rc_all=1; echo "$out" | grep -A1 VIOLATION | head -n 6; fi
done
exit $rc_all
