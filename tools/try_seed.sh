#!/bin/bash
# usage: tools/try_seed.sh <dir with patch.diff [demo.py]> [tier] [props...]
# Applies the seeded change to a scratch worktree of /repo (never to /repo itself), confirms that the
# repository's suite still passes and that the demonstration fails with / passes without the change,
# then runs the checks against the scratch tree (evidence and replays go to a scratch directory).
set -u
d=$(realpath "$1"); tier=${2:-quick}; shift; shift || true
props=${*:-"C01 C02 C03 C04 C05 C06 C07 C08 C09 C10 C11 C12 C13 C14 C15 C16 C17 C18"}
wt=$(mktemp -d /tmp/seedwt.XXXXXX); rmdir "$wt"
git -C /repo worktree add -q --detach "$wt" HEAD || exit 3
trap 'git -C /repo worktree remove --force "$wt"; rm -rf "$scratch"' EXIT
scratch=$(mktemp -d /tmp/seedout.XXXXXX)
if [ -f "$d/demo.py" ]; then
  (cd "$wt" && /venv/bin/python "$d/demo.py" >/dev/null 2>&1); echo "demo on clean tree: rc=$? (want 0)"
fi
git -C "$wt" apply "$d/patch.diff" || { echo "PATCH DOES NOT APPLY"; exit 3; }
(cd "$wt" && /venv/bin/python -m pytest -q -p no:cacheprovider -x 2>&1 | tail -n 1)
if [ -f "$d/demo.py" ]; then
  (cd "$wt" && /venv/bin/python "$d/demo.py" >/dev/null 2>&1); echo "demo with change: rc=$? (want non-zero)"
fi
cd /verif
for p in $props; do
  out=$(VERIF_REPO="$wt" VERIF_EVIDENCE_DIR="$scratch/ev" VERIF_REPLAY_DIR="$scratch/rp" timeout 3000 /venv/bin/python -m mc check $p --tier $tier 2>&1); rc=$?
  echo "$p rc=$rc $(echo "$out" | grep -c '^VIOLATION') violation lines :: $(echo "$out" | grep -A1 '^VIOLATION' | grep fingerprint | head -n 2 | cut -c1-230 | tr '\n' ' ')"
done
