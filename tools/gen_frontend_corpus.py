#!/usr/bin/env python3
"""Regenerate mc/data/frontend_cfgs_s3.json: the distinct closed CFGs that the source front end emits for
S(3) without loop-else and for the nesting chains CH(3) (marked mode).  An input corpus for the graph-level
checks; run with /venv/bin/python from /verif.  (Quick tiers load the file instead of re-deriving 98k programs.)"""
import json, os, sys
sys.path.insert(0, os.path.dirname(os.path.dirname(os.path.abspath(__file__))))
import mc  # noqa
from mc.families import canonical, is_closed
from mc.kernel import shard_map
from mc.progs import chain_sources, skeleton_sources, source_cfg


def work(chunk):
    out = set()
    for label, src in chunk:
        g = source_cfg(src)
        if g is None or any(t not in g for r in g.values() for t in r):
            continue
        c = canonical(g, "0" if "0" in g else None)
        if c is not None and is_closed(c):
            out.add(c)
    return out


progs = (list(skeleton_sources(3, "marked", loop_else_upto=2)) + list(chain_sources(3, "marked"))
         + list(skeleton_sources(3, "bare", loop_else_upto=2)) + list(chain_sources(3, "bare")))
seen = set()
for r in shard_map(work, [progs[i:i + 2000] for i in range(0, len(progs), 2000)]):
    seen |= r
small = set()
for r in shard_map(work, [list(skeleton_sources(2, "marked"))]):
    small |= r
new = sorted(seen - small, key=lambda g: (len(g), g))
path = os.path.join(os.path.dirname(os.path.dirname(os.path.abspath(__file__))), "mc", "data", "frontend_cfgs_s3.json")
json.dump({"derivation": "AST2SCFG of S(3) without loop-else + CH(3), marked and bare mode, minus the CFGs of S(<=2); canonical form",
           "graphs": [[list(r) for r in g] for g in new]}, open(path, "w"), separators=(",", ":"))
print(len(progs), "programs ->", len(seen), "distinct closed CFGs;", len(new), "not already in S(<=2); max blocks", max(map(len, new)))
