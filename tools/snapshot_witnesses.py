#!/usr/bin/env python3
"""Narrow the open findings of known_findings.txt to explicit witness lists.

usage: snapshot_witnesses.py <dump file> [<dump file> ...]
Each dump file was written by a check run with VERIF_DUMP_VIOLS=<file> on the UNCHANGED tree (lines: fingerprint, instance key,
tier, detail).  For every ``open:`` line the instance keys that hit its fingerprint are written to known/<property>_<n>.txt and
the line's ``witnesses=`` field is pointed at that file, so that an instance which is NOT in the list - a new input failing in
the same broad way - is reported as a violation instead of being absorbed by the fingerprint.  Never run by a check.
"""
import collections
import os
import re
import sys

HERE = os.path.dirname(os.path.dirname(os.path.abspath(__file__)))


def main():
    hits = collections.defaultdict(set)
    for path in sys.argv[1:]:
        for line in open(path):
            parts = line.rstrip("\n").split("\t")
            if len(parts) >= 2:
                hits[parts[0]].add(parts[1])
    kf = os.path.join(HERE, "known_findings.txt")
    out, n = [], collections.Counter()
    for line in open(kf):
        m = re.match(r"^open:\s+property=(\S+)\s+fp=(\S+)\s+witnesses=(\S+)\s+::(.*)$", line.rstrip("\n"))
        if not m:
            out.append(line)
            continue
        prop, fp, wit, what = m.groups()
        keys = set(hits.get(fp, ()))
        if wit != "*" and os.path.exists(os.path.join(HERE, wit)):
            keys |= {w.split()[0] for w in open(os.path.join(HERE, wit)) if w.strip() and not w.startswith("#")}
        if not keys:
            out.append(line)
            continue
        n[prop] += 1
        rel = wit if wit != "*" else f"known/{prop}_{n[prop]:02d}_{re.sub(r'[^A-Za-z0-9]+', '_', fp.split('/', 1)[1])[:60].strip('_')}.txt"
        with open(os.path.join(HERE, rel), "w") as f:
            f.write(f"# instances of the open finding {fp} (unchanged tree, quick + thorough tiers); one instance key per line\n")
            for k in sorted(keys):
                f.write(k + "\n")
        out.append(f"open: property={prop} fp={fp} witnesses={rel} ::{what}\n")
        print(f"{fp}: {len(keys)} witnesses -> {rel}")
    with open(kf, "w") as f:
        f.writelines(out)


if __name__ == "__main__":
    main()
