#!/usr/bin/env python3
"""usage: seed_meta.py <seed dir> <property> <needs...> -- <detected by (comma list) | MISSED> -- <what I ran>"""
import json, sys, os
d = sys.argv[1]
rest = " ".join(sys.argv[3:]).split(" -- ")
meta = {"breaks_property": sys.argv[2], "needs_to_manifest": rest[0], "detected_by_checks": [x.strip() for x in rest[1].split(",")] if len(rest) > 1 else [],
        "what_was_run": rest[2] if len(rest) > 2 else "tools/try_seed.sh <dir> quick (scratch worktree of /repo HEAD + patch; suite 82 passed; demo fails with / passes without)",
        "source": "written independently by a sub-agent given only the property text and a scratch worktree"}
json.dump(meta, open(os.path.join(d, "meta.json"), "w"), indent=1)
print(meta)
