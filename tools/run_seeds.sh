#!/bin/bash
# Re-run every seeded change against the checks its meta.json names; prints DETECTED / MISSED per seed.
# usage: tools/run_seeds.sh [tier]
tier=${1:-quick}
cd /verif
for d in seeded/*/; do
  id=$(basename $d)
  checks=$(/venv/bin/python -c "
import json,re,sys
m=json.load(open('$d/meta.json'))
print(' '.join(sorted(set(re.findall(r'C\d\d', ' '.join(m['detected_by_checks'])))) ))")
  if [ -z "$checks" ]; then echo "$id :: no detecting check recorded (out of domain)"; continue; fi
  out=$(tools/try_seed.sh $d $tier $checks 2>&1)
  det=$(echo "$out" | grep -E "^C[0-9]+ rc=1 [1-9]" | cut -d' ' -f1 | tr '\n' ' ')
  suite=$(echo "$out" | grep -c "82 passed")
  echo "$id :: suite_ok=$suite :: detected_by=[$det] of [$checks]"
done
