#!/bin/bash
# usage: tools/collect_seed.sh <cNN> <seed-id>   (takes the uncommitted change of /tmp/wt/<cNN> and /tmp/wt/out_<cNN>)
set -e
c=$1; id=$2
d=/verif/seeded/$id
mkdir -p $d
git -C /tmp/wt/$c diff > $d/patch.diff
[ -s $d/patch.diff ] || { echo "empty diff"; exit 1; }
cp /tmp/wt/${OUTP:-out}_$c/demo.py $d/demo.py 2>/dev/null || true
cp /tmp/wt/${OUTP:-out}_$c/notes.md $d/notes.md 2>/dev/null || true
wc -l $d/patch.diff
