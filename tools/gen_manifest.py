#!/usr/bin/env python3
"""Regenerate /verif/MANIFEST.json from the table below (kept in one place so it stays valid)."""
import json
import os

HERE = os.path.dirname(os.path.dirname(os.path.abspath(__file__)))
PY = "/venv/bin/python"

CHECKS = {
    "C01": ("explicit-state BFS to the fix-point over the product (original block x position in the restructured hierarchy x "
            "control-variable valuation), both walkers, every stage prefix, over exhaustively enumerated closed CFGs (all classes up to "
            "n blocks, every naming / insertion order of the small classes, deviation-bounded, front-end and multi-exit-loop families)",
            "Every decision sequence of unbounded length is decided per instance because the reachable product states are explored "
            "to the fix-point; instances are all closed CFGs up to the block bound plus the deviation-bounded and front-end families.",
            "walker semantics are the checker's reading of by-name / region-by-region execution, bound to generated code and the "
            "repository's simulator by the conformance legs; bounded scope (DESIGN 10)"),
    "C02": ("exhaustive enumeration of closed CFGs (all up to n blocks under every naming of the small classes, deviation-bounded neighbours "
            "of front-end CFGs, multi-entry multi-exit loops x every continuation DAG); every stage is a real transition; oracle = no "
            "exception + deterministic progress budget",
            "Acceptance is a universally quantified claim over inputs; small-scope exhaustive enumeration with the real stages as "
            "transitions meets every shape up to the bound instead of the ~35 graphs of the suite.",
            "bounded scope; random graphs of the quantifier replaced by the exhaustive deviation-bounded family"),
    "C03": ("exhaustive enumeration of closed CFGs (E(n) under every naming of the small classes, LX, ARMS, BIG, deviation-bounded and "
            "front-end families); the structuredness definition evaluated on every level of every resulting hierarchy, declared and "
            "effective continuations of branch arms",
            "The definition of 'structured' is evaluated as such on every level of every hierarchy produced from the enumerated inputs.",
            "bounded scope"),
    "C04": ("exhaustive enumeration of closed CFGs x stage prefixes; consistency invariant evaluated on every region and edge; "
            "closure of both walkers compared",
            "Invariant over all reachable hierarchies of the bounded input space, every region at every depth, every edge.",
            "parent checked by designation; bounded scope"),
    "C05": ("exhaustive enumeration of closed CFGs x 3 payload types x stage prefixes; snapshot-vs-result comparison of every input block, "
            "and explicit-state exploration (by-name product) that every rerouted successor slot leads to the original successor it replaces",
            "Conservation is checked on every input block of every enumerated instance at every stage.", "bounded scope"),
    "C06": ("explicit-state BFS over the product with control-variable valuation and latch-freshness monitor, both walkers, all stage "
            "prefixes; plus static table/successor agreement",
            "Reachable-valuation exploration is exact for 'all paths' because decisions at original blocks are unconstrained.",
            "freshness enforced for exiting latches; bounded scope"),
    "C07": ("stateless depth-first exploration of ALL oracle answer sequences (tests true/false/raise, iterables of length 0-2, raising calls) "
            "up to a horizon, original function vs regenerated function, over exhaustively enumerated control skeletons S(c), expression "
            "shapes X(d) x carriers and targeted programs; exhaustive argument tuples x calling conventions for the parameter-driven family "
            "A(c) with four signature forms; histories: regeneration twice from one graph, re-conversion through the string entry points",
            "Arguments are replaced by an environment oracle so that every branch-decision path up to the horizon is executed on both "
            "functions; the program space is enumerated, not sampled.",
            "control depends on data only via oracle calls; truthiness is not an external call; horizon bounds loop unrolling"),
    "C08": ("stateless exploration of all oracle answer sequences: the front end's CFG executed by a block interpreter vs the function, "
            "pruned and unpruned, plus a static census by AST node identity; input forms (string twice, AST list, function object at three "
            "indentation levels) must give the identical graph",
            "Order of external calls (incl. operator calls on oracle values) is compared on every path up to the horizon, which exposes "
            "eager or re-ordered operand evaluation that return values hide.",
            "block interpreter is the checker's reading of the statement; horizon bounds loop unrolling"),
    "C09": ("exhaustive enumeration of generated programs (skeletons, opcode-targeted snippets) and a complete sweep of a fixed stdlib corpus; "
            "library graph compared with a reference CFG from dis metadata, under CPython 3.12 and 3.11; histories (rebuild after in-place "
            "restructuring, __code__ replaced on the same function object) and input forms (code object, function, bound method, function "
            "carrying __wrapped__); functions of ~1000 blocks under the default recursion limit",
            "The program space is enumerated and the corpus swept completely; every block and successor edge is compared with the interpreter's "
            "own opcode metadata.",
            "reference classification of opcodes is completeness-guarded; only interpreters present in the image (3.12, 3.11)"),
    "C11": ("exhaustive enumeration of (unsupported statement class x snippet variant x structural position x entry point), and of every "
            "insertion point of every control skeleton - also behind an inserted return / break / continue (dead code)",
            "The space statement-class x position is finite and small; it is enumerated completely from the running interpreter's ast module.",
            "snippet table completeness-guarded; two-insertion (dead code) enumeration limited to S(1) skeletons in the quick tier"),
    "C10": ("exhaustive enumeration of accepted programs and of AST-block graphs; static census of the regenerated tree (node identity, "
            "multiset of control-variable assignments, test/if correspondence, hygiene, unparse+compile); exhaustive histories of 2-3 "
            "transform() calls on one transformer instance and of two regenerations from one graph",
            "A static census covers code on paths no input exercises; inputs are enumerated, not sampled.",
            "census is static: it does not establish that the emitted code is placed on the right path (C07 does)"),
    "C12": ("stateless depth-first exploration over set-iteration orders: every set of the library is replaced (import-time AST rewriting) by a "
            "set whose iteration order / pop choice the explorer picks, deviation-bounded, on graphs under default and name-interleaving "
            "and tie-producing labellings (leading zeros, case, name flavour), sets owned at construction AND iteration sites; plus real "
            "PYTHONHASHSEED sub-process runs bound to it",
            "The hash-seed nondeterminism is owned by the explorer instead of hoped for: every order of every iterated set (within the deviation "
            "bound) is executed and the exact canonical dump compared.",
            "hash randomisation acts only through set iteration order; deviation bound d <= 2"),
    "C13": ("exhaustive enumeration of ALL small digraphs (ordered target lists incl. duplicates, self loops, external targets) and all "
            "subsets; every query compared with a definition-level reference; exhaustive histories query-all / one edit through each "
            "public mutator / query-all on the same object",
            "Queries are pure functions of a small graph: the input space up to the bound is enumerated completely.",
            "bounded node count (3 nodes x lists<=3, 4 nodes x lists<=2) plus level graphs of restructured E(n)"),
    "C14": ("explicit-state BFS over edit-operation sequences with canonical-dump deduplication, each transition the real method, compared "
            "in lock-step with a plain-dict reference model (arcs, and the value tables of branching predecessors key by key); product "
            "construction for path preservation; initial states: flat, "
            "loop-restructured and fully restructured graphs under several namings incl. generator-style names",
            "Histories of edit operations with all P/S choices up to the bound are explored exhaustively, from flat graphs and from "
            "loop-restructured graphs (region and branching-synthetic predecessors).",
            "depth and subset-size bounds (DESIGN 4/C14)"),
    "C17": ("exhaustive enumeration of graphs x stage prefixes (skeleton bytecode functions; source graphs whose statement texts contain "
            "formatter / DOT metacharacters; one block of every registered type); the DOT source is parsed and compared with the hierarchy",
            "Every rendering of every enumerated hierarchy is compared node by node, cluster by cluster, edge by edge.",
            "DOT text only; graphviz package's own quoting is trusted"),
    "C15": ("exhaustive exploration of histories: stage pipeline with all placements of <= 2 dict/YAML write-read round trips in the gaps, over "
            "exhaustively enumerated graphs (closed CFGs under several namings, and ALL small digraphs incl. non-closed ones); each round "
            "trip is the real writer + reader; field-by-field comparison incl. successor order; what was written must not change later; "
            "one hand-built graph with a block of every type in the library's registry",
            "Histories (stage prefixes interleaved with round-trip chains) are enumerated completely within the deviation bound.",
            "at most 2 round trips per history; AST payload outside the domain"),
    "C18": ("explicit-state BFS over name-request sequences; exhaustive histories (stages interleaved with reloads) with the name generator "
            "and add_block wrapped; exhaustive assignments of generator-namespace names to input blocks; exhaustive ordered tuples of "
            "existing generator-style names (indices around decimal carries) x construction / dict / YAML reload x requests",
            "Freshness is a history property: all request sequences up to the depth bound and all reload placements are explored, with the "
            "invariant evaluated at the moment a name is handed out.",
            "wrapping happens inside the checker process; bounded depth / reloads"),
    "C16": ("exhaustive enumeration of closed CFGs x {input, J, JL, JLB}; iterator and concealed view of every (sub)graph compared "
            "with the hierarchy; view objects taken at one stage are traversed again after the next, and two live iterators of the same "
            "graph / view are advanced in strict alternation (histories)",
            "Every sub-region at every depth of every enumerated hierarchy is iterated and compared.", "bounded scope"),
}

PENDING = {}
ALL = [f"C{i:02d}" for i in range(1, 19)]


def main():
    checks = []
    for pid in ALL:
        if pid not in CHECKS:
            continue
        tech, text, note = CHECKS[pid]
        checks.append({
            "property_id": pid,
            "quick_cmd": f"{PY} -m mc check {pid} --tier quick",
            "thorough_cmd": f"{PY} -m mc check {pid} --tier thorough",
            "evidence_file": f"/verif/evidence/{pid}.json",
            "replay_cmd_template": f"{PY} -m mc replay {{path}}",
            "engine": "mc",
            "level_claimed": {"category": "model_checking", "text": text, "design_ref": f"DESIGN.md section 4 ({pid})"},
            "level_note": note,
            "technique": tech,
        })
    na = [{"property_id": p, "reason": PENDING.get(p, "check not yet built in this revision of /verif (planned, see DESIGN.md section 4); not claimed until it exists")}
          for p in ALL if p not in CHECKS]
    man = {
        "version": 1,
        "setup_cmd": f"cd /verif && {PY} -m compileall -q mc && {PY} -m mc selftest",
        "hooks": {"guard": "NUMBA_SCFG_VERIF", "enable": "no source hooks: checks import /repo's working tree directly and observe through "
                  "public attributes, run-time wrapping inside the checker process and import-time AST rewriting (C12)",
                  "baseline_off_cmd": "cd /repo && /venv/bin/python -m pytest -ra -q -p no:cacheprovider --timeout=900 --continue-on-collection-errors",
                  "source_commits": [], "add_only": True},
        "engines": [{"name": "mc", "path": "/verif/mc", "serves_properties": [c["property_id"] for c in checks],
                     "kind_free_text": "hand-written explicit-state / stateless explorers driving the real library (K-BFS, K-DFS, K-ENUM)"}],
        "checks": checks,
        "not_applicable": na,
        "notes": "Checks run with /venv/bin/python importing numba_scfg from /repo's working tree ($VERIF_REPO overrides). "
                 "Known findings: /verif/known_findings.txt.",
    }
    with open(os.path.join(HERE, "MANIFEST.json"), "w") as f:
        json.dump(man, f, indent=1)
    print("wrote MANIFEST.json with", len(checks), "checks;", len(na), "not claimed")


if __name__ == "__main__":
    main()
