"""Self-tests of the machinery (DESIGN 12.2): enumerator completeness, explorer determinism."""
from __future__ import annotations

import itertools
import sys

from .families import E_COUNTS, canonical, enum_closed, is_closed, shards
from .kernel import Chooser, HarnessError, bfs, dfs_answers


def _brute(n):
    opts = [()] + [(a,) for a in range(n)] + [(a, b) for a in range(n) for b in range(n) if a != b]
    s = set()
    for rows in itertools.product(opts, repeat=n):
        if any(0 in r for r in rows):
            continue
        c = canonical(tuple(rows))
        if c is not None and is_closed(c):
            s.add(c)
    return s


def main() -> int:
    # enumerator: counts pinned, brute-force equality for n <= 4, shards partition E(n)
    for n in range(1, 6):
        gs = list(enum_closed(n))
        assert len(gs) == E_COUNTS[n] == len(set(gs)), (n, len(gs))
        assert sum(sum(1 for _ in enum_closed(n, p)) for _, p in shards(n, 3)) == E_COUNTS[n]
        if n <= 4:
            assert set(gs) == _brute(n), n
        for g in gs:
            assert canonical(g) == g and is_closed(g)
    # stateless explorer: all answer sequences of a small tree, replay determinism, divergence is loud
    seen = []

    def run(ch: Chooser):
        a = ch.choose(2)
        b = ch.choose(3) if a else ch.choose(2)
        return (a, b)
    st = dfs_answers(run, lambda ch, obs: seen.append(obs))
    assert sorted(seen) == [(0, 0), (0, 1), (1, 0), (1, 1), (1, 2)], seen
    seen.clear()
    dfs_answers(run, lambda ch, obs: seen.append(obs), bound_deviations=1)
    assert sorted(seen) == [(0, 0), (0, 1), (1, 0)], seen
    try:
        run(Chooser((0, 5)))
        raise AssertionError("out-of-range replay not detected")
    except HarnessError:
        pass
    flip = [0]

    def nondet(ch):
        flip[0] += 1
        return flip[0]
    try:
        dfs_answers(nondet, lambda ch, obs: None)
        raise AssertionError("nondeterminism not detected")
    except HarnessError:
        pass
    # explicit-state BFS on a tiny counter machine
    s = bfs([0], lambda x: [("inc", (x + 1) % 7), ("dbl", (2 * x) % 7)], key=lambda x: x)
    assert s.states == 7 and s.transitions == 14
    extra = []
    try:
        from . import selftest_more
        extra = selftest_more.run()
    except ImportError:
        pass
    print("selftest ok: E(n) counts 1,1,10,159,3695; explorers deterministic;", *extra)
    return 0


if __name__ == "__main__":
    sys.exit(main())
