"""Explorer kernels: explicit-state BFS, stateless DFS over environment answers,
deterministic sharding.  Nothing here samples; caps that are hit are reported.
"""
from __future__ import annotations

import collections
import multiprocessing
import os
import sys
import signal
import traceback
from dataclasses import dataclass, field
from typing import Any, Callable, Iterable, List, Optional, Tuple


class HarnessError(Exception):
    """The checker itself is broken (never reported as a property violation)."""


class Violation(Exception):
    """A property violation found on one explored instance.

    clause : which clause of the property failed (e.g. "C04/targets-in-sync")
    site   : library mechanism implicated
    shape  : small structural predicate of the witness
    case   : a JSON-able replay dict
    """

    def __init__(self, prop: str, clause: str, detail: str, *, site: str = "",
                 shape: str = "", case: Optional[dict] = None):
        super().__init__(f"{prop} {clause}: {detail}")
        self.prop = prop
        self.clause = clause
        self.detail = detail
        self.site = site
        self.shape = shape
        self.case = case or {}

    def fingerprint(self) -> str:
        return "|".join((self.clause, self.site, self.shape))

    def to_dict(self) -> dict:
        return {"property": self.prop, "clause": self.clause, "detail": self.detail,
                "site": self.site, "shape": self.shape, "fingerprint": self.fingerprint(),
                "case": self.case}


@dataclass
class Stats:
    states: int = 0
    transitions: int = 0
    max_depth: int = 0
    capped: bool = False

    def add(self, other: "Stats") -> None:
        self.states += other.states
        self.transitions += other.transitions
        self.max_depth = max(self.max_depth, other.max_depth)
        self.capped = self.capped or other.capped


def bfs(initial: Iterable[Any], successors: Callable[[Any], Iterable[Tuple[Any, Any]]],
        key: Callable[[Any], Any], invariant: Optional[Callable[[Any, Any, Any], None]] = None,
        max_depth: Optional[int] = None, max_states: Optional[int] = None) -> Stats:
    """Explicit-state breadth-first search to the fix-point.

    ``successors(state)`` calls the REAL code and yields (label, state').  ``invariant``
    may raise Violation.  A depth/state cap that is hit sets ``capped``.
    """
    st = Stats()
    seen = set()
    frontier = collections.deque()
    for s in initial:
        k = key(s)
        if k not in seen:
            seen.add(k)
            frontier.append((s, 0))
    while frontier:
        s, d = frontier.popleft()
        st.max_depth = max(st.max_depth, d)
        if max_depth is not None and d >= max_depth:
            st.capped = True
            continue
        for label, nxt in successors(s):
            st.transitions += 1
            if invariant is not None:
                invariant(s, label, nxt)
            k = key(nxt)
            if k not in seen:
                if max_states is not None and len(seen) >= max_states:
                    st.capped = True
                    continue
                seen.add(k)
                frontier.append((nxt, d + 1))
    st.states = len(seen)
    return st


class Chooser:
    """Answers nondeterministic questions for one execution of a stateless exploration.

    Replays ``prefix``; afterwards always takes alternative 0.  Records the number of
    alternatives at every choice point so that the explorer can branch.
    """

    def __init__(self, prefix: Tuple[int, ...] = (), horizon: Optional[int] = None):
        self.prefix = tuple(prefix)
        self.horizon = horizon
        self.points: List[int] = []
        self.choices: List[int] = []
        self.labels: List[Any] = []

    def choose(self, n: int, label: Any = None) -> int:
        if n <= 0:
            raise HarnessError("choice point without alternatives")
        i = len(self.points)
        if self.horizon is not None and i >= self.horizon:
            raise Horizon()
        if i < len(self.prefix):
            c = self.prefix[i]
            if c >= n:
                raise HarnessError(f"replay diverged: choice {c} of {n} at point {i} ({label})")
        else:
            c = 0
        self.points.append(n)
        self.choices.append(c)
        self.labels.append(label)
        return c


class Horizon(BaseException):
    """Raised by a Chooser when the horizon of answers is exhausted."""


class StopExploration(Exception):
    """Raised by an on_run callback: the verdict for this instance is settled, do not explore further answer sequences."""


@dataclass
class DfsStats:
    stopped: bool = False
    runs: int = 0
    choice_points: int = 0
    max_points: int = 0
    horizon_cuts: int = 0
    outcomes: set = field(default_factory=set)


def dfs_answers(run: Callable[[Chooser], Any], on_run: Callable[[Chooser, Any], None],
                bound_deviations: Optional[int] = None, horizon: Optional[int] = None,
                check_replay: bool = True) -> DfsStats:
    """Stateless exploration of all answer sequences (CHESS-style, deviation-bounded).

    ``run(chooser)`` executes the code under test to completion, asking ``chooser.choose``
    at every choice point, and returns an observation.  Every alternative of every choice
    point beyond the replayed prefix is explored; with ``bound_deviations`` only runs with
    at most that many non-default answers.  The first run is replayed once to assert that
    the execution is a function of the answers (determinism).
    """
    st = DfsStats()
    stack: List[Tuple[int, ...]] = [()]
    first = True
    while stack:
        prefix = stack.pop()
        ch = Chooser(prefix, horizon)
        obs = run(ch)
        if len(ch.points) < len(prefix):
            raise HarnessError(f"replay diverged: prefix {prefix} met only {len(ch.points)} points")
        if first and check_replay:
            ch2 = Chooser(tuple(ch.choices), horizon)
            obs2 = run(ch2)
            if obs2 != obs or ch2.points != ch.points:
                raise HarnessError("execution is not a function of its answers (replay differs)")
            first = False
        st.runs += 1
        st.choice_points += len(ch.points) - len(prefix)
        st.max_points = max(st.max_points, len(ch.points))
        try:
            on_run(ch, obs)
        except StopExploration:
            st.stopped = True
            break
        devs = sum(1 for c in ch.choices[:len(prefix)] if c != 0)
        for i in range(len(ch.points) - 1, len(prefix) - 1, -1):
            if bound_deviations is not None and devs + 1 > bound_deviations:
                break
            for alt in range(ch.points[i] - 1, 0, -1):
                stack.append(tuple(ch.choices[:i]) + (alt,))
    return st


# ---------------------------------------------------------------------------------------
# deterministic sharding over a fork pool

def ncpu() -> int:
    try:
        n = len(os.sched_getaffinity(0))
    except Exception:
        n = os.cpu_count() or 1
    return max(1, min(16, n, int(os.environ.get("VERIF_JOBS", "16"))))


def _call(args):
    fn, item = args
    try:
        return ("ok", fn(item))
    except BaseException as e:  # a worker must never die silently
        return ("err", "".join(traceback.format_exception(type(e), e, e.__traceback__)))
    finally:
        if os.environ.get("VERIF_LIBCOV"):
            from . import libcov
            libcov.dump()


def shard_map(fn: Callable[[Any], Any], items: List[Any], workers: Optional[int] = None) -> List[Any]:
    """Apply fn to every item on a fork pool; results come back in item order."""
    workers = workers or ncpu()
    if workers == 1 or len(items) <= 1:
        out = []
        for it in items:
            tag, res = _call((fn, it))
            if tag == "err":
                raise HarnessError("worker failed:\n" + res)
            out.append(res)
        return out
    import concurrent.futures as cf
    ctx = multiprocessing.get_context("fork")
    out = []
    try:
        with cf.ProcessPoolExecutor(max_workers=workers, mp_context=ctx) as pool:
            results = list(pool.map(_call, [(fn, it) for it in items], chunksize=1))
    except cf.process.BrokenProcessPool as e:
        raise HarnessError(f"a worker process died (killed / out of memory / interpreter crash): {e}")
    for tag, res in results:
        if tag == "err":
            raise HarnessError("worker failed:\n" + res)
        out.append(res)
    return out


class default_recursion:
    """Run library code under the interpreter's DEFAULT recursion limit (the checker itself raises the limit for its own
    walkers): a change that makes the library recurse once per block must fail here as it would for a user."""
    DEFAULT = 1000

    def __enter__(self):
        self._old = sys.getrecursionlimit()
        sys.setrecursionlimit(self.DEFAULT)
        return self

    def __exit__(self, *exc):
        sys.setrecursionlimit(self._old)
        return False


class CpuBudget:
    """Per-instance CPU-time backstop (ITIMER_VIRTUAL): independent of machine load."""

    class Exceeded(BaseException):
        pass

    def __init__(self, seconds: float):
        self.seconds = seconds

    def _handler(self, signum, frame):
        raise CpuBudget.Exceeded()

    def __enter__(self):
        self._old = signal.signal(signal.SIGVTALRM, self._handler)
        signal.setitimer(signal.ITIMER_VIRTUAL, self.seconds)
        return self

    def __exit__(self, *exc):
        signal.setitimer(signal.ITIMER_VIRTUAL, 0)
        signal.signal(signal.SIGVTALRM, self._old)
        return False


def guarded(fn, *args, seconds: float = 60.0, **kw):
    """Call fn under a CPU-time backstop; CpuBudget.Exceeded is turned into TimeoutError (an Exception)."""
    try:
        with CpuBudget(seconds):
            return fn(*args, **kw)
    except CpuBudget.Exceeded:
        raise TimeoutError(f"{getattr(fn, '__name__', fn)} did not finish within {seconds} CPU-seconds")
