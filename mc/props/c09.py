"""C09 - the graph built from bytecode is exactly the bytecode's control flow (DESIGN 4/C09)."""
from __future__ import annotations

import importlib
import json
import os
import subprocess
import sys
import types

from .. import VERIF
from ..bytecode_ref import classify, compare, completeness_guard, in_domain, jump_opcodes
from ..kernel import default_recursion, shard_map
from ..progs import skeleton_sources
from ..runner import Acc
from ..sweep import exc_fingerprint, rotate

PROP = "C09"
PYTAG = f"py{sys.version_info[0]}.{sys.version_info[1]}"

SNIPPETS = {
    "is_none": "def f(x):\n    if x is None:\n        return 1\n    return 2\n",
    "is_not_none": "def f(x):\n    if x is not None:\n        return 1\n    return 2\n",
    "is_none_else": "def f(x):\n    if x is None:\n        y = 1\n    else:\n        y = 2\n    return y\n",
    "while_is_not_none": "def f(x):\n    while x is not None:\n        x = x.next\n    return x\n",
    "while_is_none": "def f(x):\n    while x is None:\n        x = g()\n    return x\n",
    "implicit_return": "def f(x):\n    x.y = 1\n",
    "const_return": "def f(x):\n    return 42\n",
    "const_return_branches": "def f(x):\n    if x:\n        return 1\n    else:\n        return 2\n",
    "implicit_return_after_if": "def f(x):\n    if x:\n        g()\n",
    "for_plain": "def f(x):\n    for i in x:\n        g(i)\n    return 0\n",
    "for_else": "def f(x):\n    for i in x:\n        if i:\n            break\n    else:\n        g()\n    return 0\n",
    "for_continue": "def f(x):\n    for i in x:\n        if i:\n            continue\n        g(i)\n",
    "nested_for_break_continue": "def f(x):\n    for i in x:\n        for j in i:\n            if j:\n                break\n            if i:\n                continue\n            g(j)\n        else:\n            g(i)\n    return 1\n",
    "while_true": "def f(x):\n    while True:\n        if g():\n            break\n    return x\n",
    "while_true_return": "def f(x):\n    while True:\n        if g():\n            return x\n",
    "while_else": "def f(x):\n    while x:\n        x = g()\n    else:\n        g()\n    return x\n",
    "and_or": "def f(a, b, c):\n    return a and b or c\n",
    "and_test": "def f(a, b):\n    if a and b:\n        return 1\n    return 2\n",
    "or_test": "def f(a, b):\n    if a or b:\n        return 1\n    return 2\n",
    "not_test": "def f(a):\n    if not a:\n        return 1\n    return 2\n",
    "mixed_test": "def f(a, b, c):\n    if (a or b) and not c:\n        return 1\n    return 2\n",
    "ifexp": "def f(a, b, c):\n    return b if a else c\n",
    "ifexp_nested": "def f(a, b, c):\n    return (b if a else c) if c else (a if b else c)\n",
    "chained_compare": "def f(a, b, c):\n    return a < b < c\n",
    "chained_compare_test": "def f(a, b, c):\n    if a < b <= c:\n        return 1\n    return 0\n",
    "in_test": "def f(a, b):\n    if a in b:\n        return 1\n    return 0\n",
    "elif_chain": "def f(a):\n    if a == 1:\n        r = 1\n    elif a == 2:\n        r = 2\n    elif a == 3:\n        r = 3\n    else:\n        r = 4\n    return r\n",
    "while_in_if_in_while": "def f(a, b):\n    while a:\n        if b:\n            while b:\n                b = g()\n        a = g()\n    return a\n",
    "straight_line": "def f(a):\n    b = a + 1\n    c = b * 2\n    return c\n",
    "pass_only": "def f():\n    pass\n",
    "walrus_test": "def f(a):\n    if (b := g(a)):\n        return b\n    return a\n",
    "none_return_explicit": "def f(a):\n    if a:\n        return\n    g()\n",
    "is_none_and": "def f(a, b):\n    if a is None and b is not None:\n        return 1\n    return 2\n",
    "loop_is_none_continue": "def f(xs):\n    for x in xs:\n        if x is None:\n            continue\n        g(x)\n    return 1\n",
}

CORPUS_QUICK = ["textwrap", "bisect", "heapq", "fnmatch", "posixpath", "shlex", "string", "copy", "keyword", "colorsys"]
CORPUS_THOROUGH = CORPUS_QUICK + [
    "ast", "dis", "inspect", "argparse", "collections", "functools", "difflib", "glob", "tokenize", "statistics", "fractions",
    "random", "calendar", "csv", "configparser", "email.utils", "html.parser", "urllib.parse", "uuid", "zipfile", "tarfile",
    "shutil", "tempfile", "pprint", "reprlib", "optparse", "getopt", "gettext", "locale", "logging", "platform", "pickle",
    "pickletools", "plistlib", "subprocess", "sysconfig", "threading", "traceback", "typing", "unittest.case", "warnings",
    "weakref", "xml.etree.ElementTree", "dataclasses", "enum", "contextlib", "abc", "codecs", "_pyio", "os", "stat", "timeit",
    "trace", "types", "operator", "numbers", "ipaddress", "base64", "hashlib", "hmac", "queue", "sched", "selectors", "smtplib",
    "ftplib", "http.client", "http.cookies", "mimetypes", "netrc", "_pydecimal", "datetime", "json.decoder", "json.encoder",
    "json.scanner", "sre_parse", "sre_compile", "re", "opcode", "code", "codeop", "cmd", "pdb", "bdb", "profile", "pstats",
    "zipimport", "pkgutil", "modulefinder", "runpy", "importlib._bootstrap", "importlib._bootstrap_external", "importlib.util",
    "graphlib", "pathlib", "filecmp", "fileinput", "linecache", "imghdr", "sndhdr", "wave", "chunk", "socketserver", "mailbox",
    "quopri", "uu", "nturl2path", "ntpath", "genericpath", "symtable", "tabnanny", "pyclbr", "compileall", "py_compile",
    "zoneinfo._common", "concurrent.futures._base", "asyncio.base_events", "asyncio.streams", "multiprocessing.util",
    "xml.dom.minidom", "xml.sax.saxutils", "html.entities", "email.message", "email.header", "email._header_value_parser",
    "lib2to3.pytree", "turtle", "tkinter", "decimal", "numbers", "cgi", "aifc", "sunau", "telnetlib", "poplib", "imaplib", "nntplib",
]


def long_functions(tier: str = "quick") -> dict:
    """Functions that are large in one dimension: "all such functions" has no size bound, and a cost per block (a recursion, a
    quadratic scan) shows only on inputs that are actually large.  Sizes straddle the default recursion limit of 1000."""
    k = 1 if tier == "quick" else 2
    out = {}
    n = 700 * k
    out[f"seq_if_{n}"] = "def f(a):\n" + "".join(f"    if a > {i}:\n        a += {i}\n" for i in range(n)) + "    return a\n"
    n = 400 * k
    out[f"seq_while_{n}"] = "def f(a):\n" + "".join(f"    while a > {i}:\n        a -= 1\n" for i in range(n)) + "    return a\n"
    n = 600 * k
    out[f"elif_chain_{n}"] = "def f(a):\n    if a == 0:\n        return 0\n" + "".join(
        f"    elif a == {i}:\n        return {i}\n" for i in range(1, n)) + "    return -1\n"
    n = 90
    s = "def f(a):\n"
    for i in range(n):
        s += " " * (i + 1) + f"if a > {i}:\n"
    s += " " * (n + 1) + "a += 1\n    return a\n"
    out[f"nest_if_{n}"] = s
    n = 19
    s = "def f(a):\n"
    for i in range(n):
        s += " " * (i + 1) + (f"for x{i} in a:\n" if i % 2 else f"while a > {i}:\n")
    s += " " * (n + 1) + "a -= 1\n    return a\n"
    out[f"nest_loops_{n}"] = s
    n = 1200 * k
    out[f"and_chain_{n}"] = "def f(a):\n    return " + " and ".join(f"a > {i}" for i in range(n)) + "\n"
    return out


def code_objects(mod) -> list:
    """All code objects defined in a module: functions, methods, and nested code objects."""
    seen, out = set(), []

    def add(code, label):
        if id(code) in seen:
            return
        seen.add(id(code))
        out.append((label, code))
        for c in code.co_consts:
            if isinstance(c, types.CodeType):
                add(c, label + "." + c.co_name)
    modname = mod.__name__

    def visit(ns, prefix, depth):
        for k in sorted(ns):
            v = ns[k]
            if isinstance(v, (staticmethod, classmethod)):
                v = v.__func__
            if isinstance(v, property):
                for f in (v.fget, v.fset, v.fdel):
                    if isinstance(f, types.FunctionType) and f.__module__ == modname:
                        add(f.__code__, f"{prefix}{k}")
                continue
            if isinstance(v, types.FunctionType) and v.__module__ == modname:
                add(v.__code__, f"{prefix}{k}")
            elif isinstance(v, type) and v.__module__ == modname and depth < 3:
                visit(vars(v), f"{prefix}{k}.", depth + 1)
    visit(vars(mod), modname + ":", 0)
    return out


def _decoy(a, b):
    for i in a:
        if i is None:
            return b
    return a


def check_code(label: str, code, acc: Acc, source=None, fn=None):
    from numba_scfg.core.datastructures.byte_flow import ByteFlow
    why = in_domain(code)
    if why is not None:
        acc.counters[f"out_of_domain[{why.split(':')[0]}]"] += 1
        return
    acc.counters["in_domain"] += 1
    seen = set()
    case = {"label": label, "python": PYTAG}
    if source is not None:
        case["source"] = source
    else:
        case["module_function"] = label

    def report(clause, detail, site=""):
        if clause in seen:
            return
        seen.add(clause)
        acc.viol(PROP, f"{PROP}/{clause}", f"[{PYTAG}] {label}: {detail}", (label, PYTAG), site=site or PYTAG, case=case)
    import dis
    ops = [i.opname for i in dis.get_instructions(code)]
    for o in ops:
        k = classify(o)
        if k != "plain":
            acc.outcomes.add(o)
    try:
        # under the interpreter's default recursion limit, as a user would call it (the checker raises the limit for itself)
        with default_recursion():
            flow = ByteFlow.from_bytecode(code)
    except Exception as e:  # noqa: BLE001
        et, site = exc_fingerprint(e)
        report(f"build-raises/{et}", f"ByteFlow.from_bytecode raised {et}: {str(e)[:100]} at {site}", site=f"{PYTAG} {site}")
        return
    compare(code, flow.scfg, report)
    if seen:
        return
    # history: building again after the first result was transformed in place must give the same graph
    first = {n: (type(b).__name__, b.begin, b.end, tuple(b._jump_targets)) for n, b in flow.scfg.graph.items()}
    if len(first) > 300:
        # large functions: restructuring in place costs minutes; the rebuild history is covered by the small ones
        acc.states += len(first)
        acc.transitions += sum(len(v[3]) for v in first.values())
        acc.counters["large_functions(no rebuild history)"] += 1
        return
    try:
        flow.scfg.join_returns()
        flow.scfg.restructure_loop()
    except Exception:  # noqa: BLE001  (C02's business)
        pass
    try:
        again = ByteFlow.from_bytecode(code)
        second = {n: (type(b).__name__, getattr(b, "begin", None), getattr(b, "end", None), tuple(b._jump_targets))
                  for n, b in again.scfg.graph.items()}
        if second != first or again.scfg is flow.scfg:
            report("rebuild-differs", "building the graph of the same function again, after the first result was restructured in place, "
                                      "does not give the bytecode's control flow any more")
    except Exception as e:  # noqa: BLE001
        et, site = exc_fingerprint(e)
        report(f"rebuild-raises/{et}", f"second ByteFlow.from_bytecode raised {et} at {site}", site=f"{PYTAG} {site}")
    # input forms: the same function handed in as function object, bound method, and after it was made to carry the
    # metadata of ANOTHER function (functools.update_wrapper sets __wrapped__, __name__, ... but not __code__): the graph must
    # still be that of the function's own bytecode
    if fn is not None:
        import functools
        forms = [("function", lambda: fn), ("bound-method", lambda: types.MethodType(fn, object())),
                 ("function-with-__wrapped__", lambda: functools.update_wrapper(fn, _decoy))]
        for form, make in forms:
            acc.counters["input_forms_checked"] += 1
            try:
                obj = make()
                other = ByteFlow.from_bytecode(obj)
            except Exception as e:  # noqa: BLE001
                et, site = exc_fingerprint(e)
                report(f"input-form-raises/{form}/{et}", f"ByteFlow.from_bytecode({form}) raised {et} at {site}", site=f"{PYTAG} {site}")
                continue
            got = {n: (type(b).__name__, getattr(b, "begin", None), getattr(b, "end", None), tuple(b._jump_targets))
                   for n, b in other.scfg.graph.items()}
            if got != first:
                report(f"input-form-differs/{form}", f"the graph built from the {form} form differs from the graph built from the "
                                                     f"function's own code object", site=f"{PYTAG} {form}")
        # history on one function OBJECT: its bytecode is replaced in place (hot reloaders assign __code__); the next build must
        # describe the new bytecode
        try:
            import copy as _copy
            keep = fn.__code__
            want = ByteFlow.from_bytecode(_decoy.__code__)
            want = {n: (type(b).__name__, b.begin, b.end, tuple(b._jump_targets)) for n, b in want.scfg.graph.items()}
            fn.__code__ = _decoy.__code__
            try:
                got = ByteFlow.from_bytecode(fn)
                got = {n: (type(b).__name__, b.begin, b.end, tuple(b._jump_targets)) for n, b in got.scfg.graph.items()}
            finally:
                fn.__code__ = keep
            acc.counters["code_swaps_checked"] += 1
            if got != want:
                report("code-swap-stale", "after `f.__code__ = other.__code__` the graph built from f is not the graph of the new bytecode",
                       site=f"{PYTAG} code-swap")
        except (ValueError, TypeError):
            acc.counters["code_swap_not_possible(closure)"] += 1
    acc.states += len(flow.scfg.graph)
    acc.transitions += sum(len(b._jump_targets) for b in flow.scfg.graph.values())
    if len(acc.samples) < 3 and len(flow.scfg.graph) >= 4 and source is not None:
        acc.samples.append({"label": label, "python": PYTAG, "source": source,
                            "blocks": {n: [v[1], v[2], list(v[3])] for n, v in first.items()}})


def _work(args):
    kind, payload = args
    acc = Acc()
    if kind == "src":
        for label, src in payload:
            ns = {}
            try:
                exec(compile(src, f"<{label}>", "exec"), ns)
            except SyntaxError:
                acc.counters["snippet_syntax_error_on_this_python"] += 1
                continue
            check_code(label, ns["f"].__code__, acc, source=src, fn=ns["f"])
    else:
        for modname in payload:
            try:
                mod = importlib.import_module(modname)
            except BaseException:  # noqa: BLE001
                acc.counters["corpus_modules_not_importable"] += 1
                continue
            acc.counters["corpus_modules"] += 1
            for label, code in code_objects(mod):
                acc.counters["corpus_code_objects"] += 1
                check_code(label, code, acc)
    return acc


def collect(tier: str, seed: int = 0) -> Acc:
    completeness_guard()
    progs = []
    maxc = 2 if tier == "quick" else 3
    progs += list(skeleton_sources(maxc, "marked", loop_else_upto=2))
    progs += list(skeleton_sources(maxc, "bare", loop_else_upto=2))
    progs += [(f"SN/{k}", v) for k, v in SNIPPETS.items()]
    progs += [(f"LONG/{k}", v) for k, v in long_functions(tier).items()]
    progs = rotate(progs, seed)
    big = [p for p in progs if p[0].startswith("LONG/")]
    progs = [p for p in progs if not p[0].startswith("LONG/")]
    units = [("src", [p]) for p in big] + [("src", progs[i:i + 300]) for i in range(0, len(progs), 300)]
    corpus = CORPUS_QUICK if tier == "quick" else sorted(set(CORPUS_THOROUGH))
    units += [("mod", [m]) for m in corpus]
    acc = Acc()
    for r in shard_map(_work, units):
        acc.merge(r)
    acc.counters[f"programs[{PYTAG}]"] = len(progs) + len(big)
    return acc


def leg_main():
    """Entry point of the other-interpreter leg: prints a JSON summary."""
    tier = sys.argv[1] if len(sys.argv) > 1 else "quick"
    acc = collect(tier, int(os.environ.get("VERIF_SEED", "0") or 0))
    json.dump({"counters": dict(acc.counters), "states": acc.states, "transitions": acc.transitions,
               "viols": acc.viols, "outcomes": sorted(map(str, acc.outcomes)), "samples": acc.samples[:2]}, sys.stdout)


def run(tier: str, seed: int):
    acc = collect(tier, seed)
    legs = {PYTAG: "run in-process"}
    other = "/usr/bin/python3.11"
    if PYTAG != "py3.11" and os.path.exists(other):
        env = dict(os.environ)
        env["PYTHONPATH"] = VERIF
        env["PYTHONHASHSEED"] = "0"
        try:
            p = subprocess.run([other, "-c", "import mc.props.c09 as m; m.leg_main()", tier], cwd=VERIF, env=env,
                               capture_output=True, text=True, timeout=3000)
            if p.returncode != 0:
                legs["py3.11"] = "not run: " + (p.stderr.strip().splitlines() or ["?"])[-1][:200]
            else:
                d = json.loads(p.stdout)
                for k, v in d["counters"].items():
                    acc.counters[f"py3.11:{k}"] += v
                acc.states += d["states"]
                acc.transitions += d["transitions"]
                acc.viols.extend(d["viols"])
                acc.outcomes |= {"py3.11:" + o for o in d["outcomes"]}
                acc.samples.extend(d["samples"])
                legs["py3.11"] = "run in a sub-process with /usr/bin/python3.11"
        except Exception as e:  # noqa: BLE001
            legs["py3.11"] = f"not run: {type(e).__name__}: {e}"
    else:
        legs["py3.11"] = "not run: /usr/bin/python3.11 not present"
    observed = sorted(o for o in acc.outcomes if isinstance(o, str))
    cov = {"rule": "every generated program (S(c) marked+bare, targeted snippets) and every code object of the corpus modules that is in the "
                   "domain (no exception table, raise, yield) is compiled by the running interpreter and ByteFlow.from_bytecode's graph is "
                   "compared with a reference CFG derived from dis metadata; a state is one basic block, a transition one successor edge",
           "bounds": {"skeleton_compounds": 2 if tier == "quick" else 3, "snippets": len(SNIPPETS),
                      "corpus_modules": len(CORPUS_QUICK if tier == "quick" else set(CORPUS_THOROUGH))},
           "interpreters": legs,
           "jump_and_terminator_opcodes_observed": observed,
           "jump_opcodes_defined_by_this_interpreter": sorted(jump_opcodes())}
    return {"acc": acc, "coverage": cov, "assumptions": [
        "block boundaries are compared by instruction membership, not raw offsets (inline caches)",
        "the reference's opcode classification is completeness-guarded against dis.hasjrel/hasjabs"]}


def replay(case) -> Acc:
    acc = Acc()
    if case.get("python") != PYTAG:
        other = "/usr/bin/python3.11"
        code = ("import json,sys,mc.props.c09 as m\ncase=json.loads(sys.stdin.read())\nacc=m.replay(case)\n"
                "print(json.dumps(acc.viols))")
        env = dict(os.environ)
        env["PYTHONPATH"] = VERIF
        p = subprocess.run([other, "-c", code], input=json.dumps(case), cwd=VERIF, env=env, capture_output=True, text=True)
        if p.returncode == 0:
            acc.viols = json.loads(p.stdout)
        return acc
    if "source" in case:
        ns = {}
        exec(compile(case["source"], "<replay>", "exec"), ns)
        check_code(case["label"], ns["f"].__code__, acc, source=case["source"], fn=ns["f"])
    else:
        modname, _, path = case["label"].partition(":")
        mod = importlib.import_module(modname)
        for label, code in code_objects(mod):
            if label == case["label"]:
                check_code(label, code, acc)
    return acc
