"""C11 - unsupported source constructs are refused, never mistranslated (DESIGN 4/C11)."""
from __future__ import annotations

import ast
import textwrap

from ..kernel import HarnessError
from ..runner import Acc
from ..sweep import exc_fingerprint

PROP = "C11"

SUPPORTED = {"Assign", "AugAssign", "Expr", "Return", "Pass", "Break", "Continue", "If", "While", "For"}

SNIPPETS = {
    "FunctionDef": "def g():\n    return c(7)",
    "AsyncFunctionDef": "async def g():\n    pass",
    "ClassDef": "class K:\n    pass",
    "Delete": "del y",
    "TypeAlias": "type T = int",
    "AnnAssign": "y: int = c(7)",
    "AsyncFor": "async for z in it(7):\n    pass",
    "AsyncWith": "async with c(7):\n    pass",
    "With": "with c(7):\n    pass",
    "Match": "match c(7):\n    case _:\n        pass",
    "Raise": "raise c(7)",
    "Try": "try:\n    pass\nexcept Exception:\n    pass",
    "TryStar": "try:\n    pass\nexcept* Exception:\n    pass",
    "Assert": "assert c(7)",
    "Import": "import os",
    "ImportFrom": "from os import path",
    "Global": "global y",
    "Nonlocal": "nonlocal y",
}
# second spellings of the same classes (bare annotation, with-as, try/finally, raise-from, bare raise, ...)
VARIANTS = {
    "AnnAssign": ["y: int"],
    "With": ["with c(7) as y:\n    c(8)", "with c(7), c(8):\n    pass"],
    "Try": ["try:\n    c(7)\nfinally:\n    c(8)", "try:\n    c(7)\nexcept Exception:\n    c(8)\nelse:\n    c(9)"],
    "Raise": ["raise", "raise c(7) from c(8)"],
    "Assert": ["assert c(7), c(8)"],
    "Import": ["import os as o", "import os as f"],
    "Delete": ["del y, z"],
    "FunctionDef": ["def g(a, b=1):\n    if t(7):\n        return 1\n    return 2", "@c(7)\ndef g():\n    pass",
                    # names that coincide with the enclosing function, a local variable, an oracle
                    "def f():\n    return c(7)", "def y():\n    return c(7)", "def c():\n    pass"],
    "ClassDef": ["class K(c(7)):\n    y = 1", "class f:\n    pass"],
    "AsyncFunctionDef": ["async def f():\n    pass"],
    "Global": ["global f"],
    "ImportFrom": ["from os import path as f"],
    "Match": ["match c(7):\n    case 1:\n        c(8)\n    case _:\n        c(9)"],
}

POSITIONS = {
    "top_only": "def f():\n{U}\n",
    "top_first": "def f():\n{U}\n    return c(1)\n",
    "top_middle": "def f():\n    c(1)\n{U}\n    c(2)\n    return c(3)\n",
    "top_last": "def f():\n    c(1)\n{U}\n",
    "if_body": "def f():\n    if t(1):\n{UU}\n    return c(2)\n",
    "if_body_last": "def f():\n    if t(1):\n        c(3)\n{UU}\n    return c(2)\n",
    "else_body": "def f():\n    if t(1):\n        c(3)\n    else:\n{UU}\n    return c(2)\n",
    "elif_body": "def f():\n    if t(1):\n        c(3)\n    elif t(4):\n{UU}\n    return c(2)\n",
    "while_body": "def f():\n    while t(1):\n{UU}\n    return c(2)\n",
    "while_body_after_if": "def f():\n    while t(1):\n        if t(3):\n            continue\n{UU}\n    return c(2)\n",
    "while_else": "def f():\n    while t(1):\n        c(3)\n    else:\n{UU}\n    return c(2)\n",
    "for_body": "def f():\n    for x in it(1):\n{UU}\n    return c(2)\n",
    "for_else": "def f():\n    for x in it(1):\n        c(3)\n    else:\n{UU}\n    return c(2)\n",
    "after_while": "def f():\n    while t(1):\n        c(3)\n{U}\n    return c(2)\n",
    "after_for": "def f():\n    for x in it(1):\n        c(3)\n{U}\n    return c(2)\n",
    "after_if": "def f():\n    if t(1):\n        c(3)\n{U}\n    return c(2)\n",
    "two_deep": "def f():\n    while t(1):\n        if t(3):\n{UUU}\n    return c(2)\n",
    "two_deep_for_else": "def f():\n    for x in it(1):\n        c(4)\n    else:\n        if t(3):\n            c(5)\n        else:\n{UUU}\n    return c(2)\n",
    "three_deep": "def f():\n    if t(1):\n        for x in it(2):\n            while t(3):\n{UUUU}\n    return c(2)\n",
    "after_and_or_test": "def f():\n    if t(1) and t(4):\n{UU}\n    return c(2)\n",
}

NON_FUNCTIONS = {
    "class": "class K:\n    def m(self):\n        return 1\n",
    "assignment": "y = 1\n",
    "expression": "c(1)\n",
    "empty_module": "",
    "statement_then_function": "y = 1\ndef f():\n    return 1\n",
    "async_function": "async def f():\n    return 1\n",
    "import_then_function": "import os\ndef f():\n    return 1\n",
    "lambda_assignment": "f = lambda: 1\n",
}


def unsupported_classes():
    out = []
    for name in dir(ast):
        obj = getattr(ast, name)
        if isinstance(obj, type) and issubclass(obj, ast.stmt) and obj is not ast.stmt and not obj.__subclasses__():
            if name not in SUPPORTED:
                out.append(name)
    return sorted(out)


def place(template: str, snippet: str) -> str:
    out = template
    for k in (4, 3, 2, 1):
        out = out.replace("{" + "U" * k + "}", textwrap.indent(snippet, "    " * k))
    return out


def cases():
    classes = unsupported_classes()
    missing = [c for c in classes if c not in SNIPPETS]
    if missing:
        raise HarnessError(f"no snippet for statement classes {missing} of this interpreter")
    for cls in classes:
        snippets = [SNIPPETS[cls]] + VARIANTS.get(cls, [])
        for si, snip in enumerate(snippets):
            for pos, tmpl in POSITIONS.items():
                src = place(tmpl, snip)
                try:
                    tree = ast.parse(src)
                except SyntaxError:
                    continue
                kinds = {type(n).__name__ for n in ast.walk(tree) if isinstance(n, ast.stmt)}
                if cls not in kinds and not (cls == "FunctionDef"):
                    raise HarnessError(f"snippet for {cls} does not contain a {cls} statement")
                yield cls, f"{cls}#{si}@{pos}", src


def insertion_sources(src: str, snippet: str):
    """Every way of inserting ``snippet`` as a statement of its own into the function ``src``: before each line and after
    each line, at that line's indentation (insertions that do not parse - before an else, between a header and its body -
    are dropped).  This reaches every suite position, including the unreachable ones behind return / break / continue."""
    lines = src.rstrip("\n").split("\n")
    seen = set()
    for i in range(1, len(lines)):
        ind = len(lines[i]) - len(lines[i].lstrip(" "))
        block = textwrap.indent(snippet, " " * ind).split("\n")
        for at in (i, i + 1):
            cand = "\n".join(lines[:at] + block + lines[at:]) + "\n"
            if cand in seen:
                continue
            seen.add(cand)
            try:
                ast.parse(cand)
            except SyntaxError:
                continue
            yield at, cand


# representative constructs for the larger skeleton sets: a simple statement, a compound with a body, a definition
REPRESENTATIVE = ("Import", "With", "FunctionDef", "Raise")
# for the larger skeleton sets the FunctionDef representative is the variant named like the enclosing function
REP_SNIPPET = {"FunctionDef": "def f():\n    return c(7)"}


def skeleton_cases(tier: str, k: int = 0, nshards: int = 1):
    """(class, label, source): unsupported statement x every insertion point of every control skeleton (shard k of nshards,
    partitioned by skeleton)."""
    from ..progs import skeleton_sources, chain_sources
    classes = unsupported_classes()
    plan = [(1, classes, True)]                       # S(<=1): every class, every variant
    plan.append((2, [c for c in REPRESENTATIVE if c in classes] if tier == "quick" else classes, False))
    done = set()
    for level, clss, variants in plan:
        for slabel, src in skeleton_sources(level, "marked"):
            if slabel in done:
                continue
            done.add(slabel)
            if len(done) % nshards != k:
                continue
            for cls in clss:
                snippets = [SNIPPETS[cls]] + (VARIANTS.get(cls, []) if variants else ([REP_SNIPPET[cls]] if cls in REP_SNIPPET else []))
                for si, snip in enumerate(snippets):
                    for at, cand in insertion_sources(src, snip):
                        yield cls, f"{cls}#{si}@{slabel}+{at}", cand
    # two insertions: first a terminator (return / break / continue) anywhere, making everything behind it in that suite dead
    # code - including whole compound statements with their own bodies and else-clauses - then the unsupported statement anywhere
    dead_plan = [(1, [c for c in REPRESENTATIVE if c in classes])]
    if tier != "quick":
        dead_plan.append((2, ["Import"]))
    done2 = set()
    for level, clss in dead_plan:
        for slabel, src in skeleton_sources(level, "marked"):
            if slabel in done2:
                continue
            done2.add(slabel)
            if len(done2) % nshards != k:
                continue
            for term in ("return c(0)", "break", "continue"):
                for at1, src1 in insertion_sources(src, term):
                    try:
                        compile(src1, "<c11>", "exec")        # break / continue outside a loop
                    except SyntaxError:
                        continue
                    for cls in clss:
                        for at2, cand in insertion_sources(src1, REP_SNIPPET.get(cls, SNIPPETS[cls])):
                            yield cls, f"{cls}#0@{slabel}+{term.split()[0]}@{at1}+{at2}", cand
    if tier != "quick":
        for j, (slabel, src) in enumerate(chain_sources(3, "marked")):
            if j % nshards != k:
                continue
            for cls in REPRESENTATIVE:
                if cls in classes:
                    for at, cand in insertion_sources(src, SNIPPETS[cls]):
                        yield cls, f"{cls}#0@{slabel}+{at}", cand


def _skel_work(args):
    from numba_scfg.core.datastructures.ast_transforms import AST2SCFG
    tier, k, nshards = args
    acc = Acc()
    for cls, label, src in skeleton_cases(tier, k, nshards):
        acc.states += 1
        acc.transitions += 1
        acc.counters["skeleton_insertions"] += 1
        try:
            AST2SCFG(src)
        except NotImplementedError:
            acc.outcomes.add((cls, "refused"))
            continue
        except Exception as e:  # noqa: BLE001
            et, site = exc_fingerprint(e)
            acc.viol(PROP, f"{PROP}/wrong-error/{et}", f"{label}: raised {et} at {site} instead of NotImplementedError",
                     (src, "AST2SCFG"), site=site, shape=cls, case={"label": label, "source": src, "api": "AST2SCFG", "class": cls})
            continue
        acc.viol(PROP, f"{PROP}/accepted", f"{label}: a graph was returned for a function containing a {cls} statement",
                 (src, "AST2SCFG"), shape=cls, case={"label": label, "source": src, "api": "AST2SCFG", "class": cls})
    return acc


def run(tier: str, seed: int):
    from numba_scfg.core.datastructures.ast_transforms import AST2SCFG, AST2SCFGTransformer
    from ..kernel import shard_map, ncpu
    acc = Acc()
    n = 0
    nsh = max(1, ncpu()) * 4
    for r in shard_map(_skel_work, [(tier, k, nsh) for k in range(nsh)]):
        acc.merge(r)
    n += acc.counters["skeleton_insertions"]
    for cls, label, src in cases():
        for api in ("AST2SCFG", "transform_to_ASTCFG", "unpruned"):
            n += 1
            acc.states += 1
            acc.transitions += 1
            try:
                if api == "AST2SCFG":
                    AST2SCFG(src)
                elif api == "transform_to_ASTCFG":
                    AST2SCFGTransformer(src).transform_to_ASTCFG()
                else:
                    AST2SCFGTransformer(src, prune=False).transform_to_ASTCFG()
            except NotImplementedError:
                acc.counters[f"refused[{cls}]"] += 1
                acc.outcomes.add((cls, "refused"))
                continue
            except Exception as e:  # noqa: BLE001
                et, site = exc_fingerprint(e)
                acc.viol(PROP, f"{PROP}/wrong-error/{et}", f"{label} via {api}: raised {et} at {site} instead of NotImplementedError",
                         (src, api), site=site, shape=cls, case={"label": label, "source": src, "api": api, "class": cls})
                acc.outcomes.add((cls, et))
                continue
            acc.viol(PROP, f"{PROP}/accepted", f"{label} via {api}: a graph was returned for a function containing a {cls} statement",
                     (src, api), shape=cls, case={"label": label, "source": src, "api": api, "class": cls})
            acc.outcomes.add((cls, "accepted"))
        if len(acc.samples) < 5 and label.endswith("two_deep"):
            acc.samples.append({"label": label, "source": src})
    for name, src in NON_FUNCTIONS.items():
        n += 1
        acc.states += 1
        acc.transitions += 1
        try:
            AST2SCFG(src)
        except Exception as e:  # noqa: BLE001  any exception counts as refusal for non-function input
            acc.counters[f"nonfunction_refused[{type(e).__name__}]"] += 1
            acc.outcomes.add(("nonfunction", type(e).__name__))
            continue
        acc.viol(PROP, f"{PROP}/non-function-accepted", f"input `{name}` is not a function definition but a graph was returned",
                 (src,), shape=name, case={"label": name, "source": src, "api": "AST2SCFG", "class": "non-function"})
    for kind, obj in (("list_not_function", ast.parse("y = 1").body), ("empty_list", []), ("int", 3)):
        n += 1
        try:
            AST2SCFG(obj)  # type: ignore
        except Exception as e:  # noqa: BLE001
            acc.counters[f"nonfunction_refused[{type(e).__name__}]"] += 1
            continue
        acc.viol(PROP, f"{PROP}/non-function-accepted", f"input `{kind}` accepted", (kind,), shape=kind,
                 case={"label": kind, "source": None, "api": "AST2SCFG", "class": "non-function"})
    cov = {"rule": "every concrete ast.stmt subclass of the running interpreter outside the supported set x snippet variants x structural "
                   "positions x {AST2SCFG, transform_to_ASTCFG pruned, unpruned}, plus the unsupported statement inserted at EVERY "
                   "statement position (reachable or not) of every control skeleton S(c); a state is one (construct, position, entry "
                   "point) case, a transition one conversion attempt; oracle: NotImplementedError (any exception for non-function input)",
           "bounds": {"statement_classes": unsupported_classes(), "positions": list(POSITIONS), "cases": n},
           "exhaustive": True}
    return {"acc": acc, "coverage": cov, "assumptions": ["snippet table is completeness-guarded against the interpreter's ast module"]}


def replay(case) -> Acc:
    from numba_scfg.core.datastructures.ast_transforms import AST2SCFG, AST2SCFGTransformer
    acc = Acc()
    src = case["source"]
    try:
        if case.get("api") == "unpruned":
            AST2SCFGTransformer(src, prune=False).transform_to_ASTCFG()
        elif case.get("api") == "transform_to_ASTCFG":
            AST2SCFGTransformer(src).transform_to_ASTCFG()
        else:
            AST2SCFG(src)
    except NotImplementedError:
        return acc
    except Exception as e:  # noqa: BLE001
        if case.get("class") == "non-function":
            return acc
        et, site = exc_fingerprint(e)
        acc.viol(PROP, f"{PROP}/wrong-error/{et}", f"raised {et} at {site}", (src,), site=site, shape=case.get("class", ""))
        return acc
    clause = f"{PROP}/non-function-accepted" if case.get("class") == "non-function" else f"{PROP}/accepted"
    acc.viol(PROP, clause, "a graph was returned", (src,), shape=case.get("class", ""))
    return acc
