"""C08 - the graph built from source means what the source means (DESIGN 4/C08)."""
from __future__ import annotations

import ast

from ..blockinterp import Compiled
from ..env import Env, compile_fn, execute
from ..kernel import Chooser, DfsStats, dfs_answers, shard_map
from ..progs import all_target_programs, boolchain_programs, chain_sources, expr_programs, skeleton_sources, source_shapes, DEADCODE
from ..runner import Acc
from ..sweep import exc_fingerprint, rotate

PROP = "C08"
SIMPLE = (ast.Assign, ast.AugAssign, ast.Expr, ast.Return)


def programs(tier: str):
    out = []
    if tier == "quick":
        out += list(skeleton_sources(2, "marked"))
        out += list(skeleton_sources(2, "bare"))
        out += list(expr_programs(1, 3))
        out += list(expr_programs(2, 3))
        out += list(chain_sources(3, "marked"))
        out += list(boolchain_programs(5, 4))
    else:
        out += list(boolchain_programs(6, 5))
        out += list(chain_sources(3, "marked")) + list(chain_sources(3, "bare")) + list(chain_sources(4, "marked"))[::4]
        out += list(skeleton_sources(3, "marked", loop_else_upto=2))
        out += list(skeleton_sources(3, "bare", loop_else_upto=2))
        out += list(expr_programs(2, 4))
    out += list(all_target_programs())
    from ..progs import arm_programs
    out += list(arm_programs(tier))
    out += [(f"DC/{k}", v) for k, v in DEADCODE.items()]
    return out


def reference_reachable(fn: ast.FunctionDef):
    """Simple statements and tests reachable with opaque tests (independent of the library)."""
    reach_stmts, reach_tests = [], []
    loops = []

    def walk(stmts) -> bool:
        live = True
        for st in stmts:
            if not live:
                break
            if isinstance(st, ast.Return):
                reach_stmts.append(st)
                live = False
            elif isinstance(st, (ast.Assign, ast.AugAssign, ast.Expr)):
                reach_stmts.append(st)
            elif isinstance(st, ast.Break):
                loops[-1][0] = True
                live = False
            elif isinstance(st, ast.Continue):
                live = False
            elif isinstance(st, ast.Pass):
                pass
            elif isinstance(st, ast.If):
                reach_tests.append(st)
                a = walk(st.body)
                b = walk(st.orelse)
                live = a or b
            elif isinstance(st, (ast.While, ast.For)):
                reach_tests.append(st)
                loops.append([False])
                walk(st.body)
                broke = loops.pop()[0]
                e = walk(st.orelse)
                live = e or broke
            else:
                return live
        return live
    walk(fn.body)
    return reach_stmts, reach_tests


def build(src: str, prune: bool):
    from numba_scfg.core.datastructures.ast_transforms import AST2SCFGTransformer
    tree = ast.parse(src).body
    fn = tree[0]
    reach = reference_reachable(fn)
    tests = {id(n): n.test for n in reach[1] if isinstance(n, (ast.If, ast.While))}
    tr = AST2SCFGTransformer(tree, prune=prune)
    cfg = tr.transform_to_ASTCFG()
    return cfg, reach, tests


def census(cfg, reach, tests, report):
    where = {}
    for name, blk in cfg.items():
        for ins in blk.instructions:
            where.setdefault(id(ins), []).append(name)
        if not blk.instructions:
            report("census/empty-block", f"block {name} is empty after pruning")
        if len(blk.jump_targets) > 2:
            report("census/too-many-successors", f"block {name} has successors {blk.jump_targets}")
        if len(blk.jump_targets) == 2:
            last = blk.instructions[-1] if blk.instructions else None
            if not isinstance(last, (ast.expr, ast.Expr)):   # bare expression or expression statement
                report("census/branch-without-test", f"block {name} has two successors but ends in {type(last).__name__}")
            if blk.jump_targets[0] == blk.jump_targets[1]:
                report("census/duplicate-successors", f"block {name} has duplicate successors {blk.jump_targets}")
        for t in blk.jump_targets:
            if t not in cfg:
                report("census/dangling-successor", f"block {name} names missing block {t}")
        if blk.name != name:
            report("census/key-mismatch", f"key {name} holds block {blk.name}")
    for st in reach[0]:
        n = len(where.get(id(st), []))
        if n != 1:
            report("census/reachable-statement-count", f"reachable statement `{ast.unparse(st)}` occurs in {n} blocks")
    for nid, test in tests.items():
        if isinstance(test, ast.BoolOp):
            continue
        occ = where.get(id(test), [])
        if len(occ) != 1:
            report("census/reachable-test-count", f"reachable test `{ast.unparse(test)}` occurs in {len(occ)} blocks")
        elif len(cfg[occ[0]].jump_targets) != 2 or cfg[occ[0]].instructions[-1] is not test:
            report("census/test-not-branch", f"test `{ast.unparse(test)}` is not the last instruction of a two-successor block")
    if "0" not in cfg:
        report("census/no-entry", "entry block 0 is missing")


def check_program(label: str, src: str, acc: Acc, horizon: int, raising: bool = False):
    shape = source_shapes(src)
    seen = set()

    def report(clause, detail, **case):
        if clause in seen:
            return
        seen.add(clause)
        c = {"label": label, "source": src, "horizon": horizon, "raising": raising}
        c.update(case)
        acc.viol(PROP, f"{PROP}/{clause}", f"{label}: {detail}", (src,), shape=shape, case=c)

    graphs = {}
    for prune in (True, False):
        tag = "pruned" if prune else "unpruned"
        try:
            cfg, reach, tests = build(src, prune)
        except NotImplementedError:
            acc.counters["refused"] += 1
            return
        except RecursionError:
            acc.counters["recursion"] += 1
            return
        except Exception as e:  # noqa: BLE001
            et, site = exc_fingerprint(e)
            report(f"build-raises/{et}", f"building the graph ({tag}) raised {et} at {site}")
            return
        if prune:
            census(cfg, reach, tests, report)
        try:
            graphs[tag] = Compiled({n: (b.instructions, tuple(b.jump_targets)) for n, b in cfg.items()})
        except (ValueError, SyntaxError, TypeError) as e:
            report(f"uninterpretable/{tag}", f"{type(e).__name__}: {e}")
    if not graphs:
        return
    acc.counters["programs_interpreted"] += 1
    env0 = Env(raising)
    f0 = compile_fn(src, "f", env0)
    envs = {k: Env(raising) for k in graphs}
    cuts = [0]

    def run(ch: Chooser):
        return execute(f0, env0, ch)

    def on_run(ch: Chooser, obs):
        if obs[1] == ("cut",):
            cuts[0] += 1
        for tag, comp in graphs.items():
            o2 = comp.run(envs[tag], Chooser(tuple(ch.choices), horizon))
            acc.traces += 1
            if o2 != obs:
                from .c07 import diff_signature
                kind = diff_signature(obs, o2)
                report(f"interpretation-differs/{tag}/{kind}",
                       f"answers {list(ch.choices)}: function -> {obs[1]!r} after {len(obs[0])} calls; graph -> {o2[1]!r} after {len(o2[0])} calls",
                       answers=list(ch.choices), function=repr(obs), graph=repr(o2))
    st = dfs_answers(run, on_run, horizon=horizon)
    acc.states += st.runs
    acc.transitions += st.choice_points + st.runs
    acc.counters["executions"] += st.runs
    acc.counters["horizon_cuts"] += cuts[0]
    acc.outcomes.add((st.runs, cuts[0]))
    if len(acc.samples) < 4 and "S2/marked/4" in label:
        acc.samples.append({"label": label, "source": src, "answer_sequences": st.runs})


def _work(args):
    chunk, horizon = args
    acc = Acc()
    for label, src in chunk:
        check_program(label, src, acc, horizon, raising=not (label.startswith("S") or label.startswith("CH") or label.startswith("XC")))
    return acc


# ---------------------------------------------------------------------------------------
# input forms: the front end accepts a source string, a function object (inspect.getsource + dedent) or a list of AST nodes.
# All must denote the same graph.  Functions are written to a scratch module in three placements - top level, method of a
# class (indented once), nested in an ``if`` inside a class (indented twice) - imported, and converted in every form.

def _forms_dump(scfg):
    from ..canon import cdump
    return cdump(scfg)


def _convert(fn, arg):
    try:
        return ("ok", _forms_dump(fn(arg)))
    except NotImplementedError:
        return ("refused",)
    except Exception as e:  # noqa: BLE001
        return ("raised", type(e).__name__, exc_fingerprint(e)[1])


def input_forms_leg(tier: str, acc: Acc):
    import importlib.util
    import shutil
    import sys
    import tempfile
    import textwrap
    from numba_scfg.core.datastructures.ast_transforms import AST2SCFG, AST2SCFGTransformer, SCFG2AST
    progs = list(skeleton_sources(1, "marked")) + list(skeleton_sources(1, "bare")) + list(all_target_programs())
    if tier != "quick":
        progs += list(skeleton_sources(2, "marked"))[62::7]
    d = tempfile.mkdtemp(prefix="mc_forms_")
    try:
        lines, table = [], []
        for i, (label, src) in enumerate(progs):
            lines.append(src.replace("def f(", f"def top_{i}(", 1))
        lines.append("class K:\n")
        for i, (label, src) in enumerate(progs):
            lines.append(textwrap.indent(src.replace("def f(", f"def meth_{i}(", 1), "    "))
        lines.append("class L:\n    if True:\n")
        for i, (label, src) in enumerate(progs):
            lines.append(textwrap.indent(src.replace("def f(", f"def deep_{i}(", 1), "        "))
        path = f"{d}/mc_forms_mod.py"
        with open(path, "w") as f:
            f.write("\n".join(lines))
        spec = importlib.util.spec_from_file_location("mc_forms_mod", path)
        mod = importlib.util.module_from_spec(spec)
        sys.modules["mc_forms_mod"] = mod
        spec.loader.exec_module(mod)
        for i, (label, src) in enumerate(progs):
            ref = _convert(AST2SCFG, src)
            forms = {
                "source-string/second-build": _convert(AST2SCFG, src),      # history: the same text converted again
                "ast-list": _convert(AST2SCFG, ast.parse(src).body),
                "function/top-level": _convert(AST2SCFG, getattr(mod, f"top_{i}")),
                "function/method": _convert(AST2SCFG, getattr(mod.K, f"meth_{i}")),
                "function/indented-twice": _convert(AST2SCFG, getattr(mod.L, f"deep_{i}")),
                "transformer(function)": _convert(lambda a: AST2SCFGTransformer(a).transform_to_SCFG(), getattr(mod.K, f"meth_{i}")),
            }
            for form, got in forms.items():
                acc.states += 1
                acc.transitions += 1
                acc.counters["input_form_conversions"] += 1
                if got != ref:
                    what = got[0] if got[0] != "ok" else "a different graph"
                    acc.viol(PROP, f"{PROP}/input-form-differs/{form}", f"{label}: AST2SCFG of the {form} form gives {what}"
                             f"{' ' + repr(got[1:]) if got[0] == 'raised' else ''}; the source-string form gives {ref[0]}",
                             (src, form), case={"kind": "forms", "label": label, "source": src})
            # regenerated text must not depend on the form in which the original is handed to SCFG2AST either
            if ref[0] == "ok":
                try:
                    s1 = AST2SCFG(src)
                    s1.restructure()
                    t1 = ast.unparse(SCFG2AST(src, s1))
                    s2 = AST2SCFG(src)
                    s2.restructure()
                    t2 = ast.unparse(SCFG2AST(getattr(mod.K, f"meth_{i}"), s2)).replace(f"meth_{i}", "f")
                    acc.states += 1
                    if t1 != t2:
                        acc.viol(PROP, f"{PROP}/input-form-differs/SCFG2AST(function)", f"{label}: SCFG2AST given the function object "
                                 "regenerates different text than given the source string", (src, "scfg2ast"),
                                 case={"kind": "forms", "label": label, "source": src})
                except NotImplementedError:
                    pass
                except Exception:  # noqa: BLE001  (C07's business)
                    acc.counters["forms_pipeline_error(C07)"] += 1
    finally:
        sys.modules.pop("mc_forms_mod", None)
        shutil.rmtree(d, ignore_errors=True)


def run(tier: str, seed: int):
    horizon = 6 if tier == "quick" else 8
    progs = rotate(programs(tier), seed)
    size = 100
    acc = Acc()
    for r in shard_map(_work, [(progs[i:i + size], horizon) for i in range(0, len(progs), size)]):
        acc.merge(r)
    input_forms_leg(tier, acc)
    cov = {"rule": "every program of S(c) (marked, bare), X(d) x carriers, targeted and dead-code shapes: AST2SCFGTransformer CFG (pruned and "
                   "unpruned) is executed by the checker's block interpreter against ALL oracle answer sequences up to the horizon and compared "
                   "with the function itself (call log incl. operator calls on oracle values, result, exception type); plus a static census by "
                   "AST node identity against an independent reachability analysis; plus the input-forms leg: source string, AST list and "
                   "function object (top level, method, doubly indented) must convert to the identical graph",
           "bounds": {"horizon_answers": horizon, "programs": len(progs)}, "programs": len(progs)}
    return {"acc": acc, "coverage": cov, "assumptions": ["truthiness (__bool__) is not an external call",
                                                          "tests are opaque to the reference reachability analysis"]}


def replay(case) -> Acc:
    acc = Acc()
    if case.get("kind") == "forms":
        import mc.progs as _p
        saved = (_p.skeleton_sources, _p.all_target_programs)
        g = globals()
        old = (g["skeleton_sources"], g["all_target_programs"])
        g["skeleton_sources"] = lambda *a, **k: iter([(case.get("label", "replay"), case["source"])] if a[:2] == (1, "marked") else [])
        g["all_target_programs"] = lambda: iter([])
        try:
            input_forms_leg("quick", acc)
        finally:
            g["skeleton_sources"], g["all_target_programs"] = old
        return acc
    check_program(case.get("label", "replay"), case["source"], acc, case.get("horizon", 6), case.get("raising", False))
    return acc
