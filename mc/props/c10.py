"""C10 - code generation emits every block exactly once, validly and hygienically (DESIGN 4/C10)."""
from __future__ import annotations

import ast

from ..canon import cdump
from ..census import census, snapshot_blocks
from ..families import as_named, make_scfg
from ..kernel import guarded, shard_map
from ..progs import all_target_programs, expr_programs, skeleton_sources, source_shapes
from ..runner import Acc
from ..sweep import exc_fingerprint, graph_case, graph_spec, rotate, sweep, staged

PROP = "C10"


def programs(tier: str):
    out = []
    if tier == "quick":
        out += list(skeleton_sources(2, "marked")) + list(skeleton_sources(2, "bare"))
        out += list(expr_programs(1, 3)) + list(expr_programs(2, 3))
    else:
        out += list(skeleton_sources(3, "marked", loop_else_upto=2)) + list(skeleton_sources(3, "bare", loop_else_upto=2))
        out += list(expr_programs(2, 4))
    out += list(all_target_programs())
    from ..progs import arm_programs
    out += list(arm_programs(tier))
    return out


def regenerate_again(scfg, original, before, fdef, report, acc=None, recensus=None):
    """History on one GRAPH: code generation must leave the graph as it found it, and regenerating from the same graph a
    second time must give the same function (the census below is about the first result)."""
    from numba_scfg.core.datastructures.ast_transforms import SCFG2ASTTransformer
    text1 = ast.unparse(fdef)
    if cdump(scfg) != before and acc is not None:
        acc.counters["info:codegen_alters_its_input_graph"] += 1      # not a clause of C10 by itself; its consequences are
    try:
        fdef2 = guarded(SCFG2ASTTransformer().transform, original=original, scfg=scfg)
        text2 = ast.unparse(fdef2)
        compile(text2, "<regenerated twice>", "exec")
    except Exception as e:  # noqa: BLE001
        report("second-regeneration-fails", f"regenerating from the same graph a second time fails: {type(e).__name__}: {str(e)[:120]}")
        return
    if text2 != text1 and recensus is not None:
        # a different text is acceptable only if it is a correct regeneration in its own right
        recensus(fdef2)


def check_program(label, src, acc: Acc):
    from numba_scfg.core.datastructures.ast_transforms import AST2SCFGTransformer, SCFG2ASTTransformer
    seen = set()

    def report(clause, detail):
        if clause in seen:
            return
        seen.add(clause)
        acc.viol(PROP, f"{PROP}/{clause}", f"{label}: {detail}", (src,), case={"kind": "program", "label": label, "source": src})
    tree = ast.parse(src).body
    orig_names = {n.id for n in ast.walk(tree[0]) if isinstance(n, ast.Name)} | {a.arg for a in tree[0].args.args}
    try:
        scfg = AST2SCFGTransformer(tree).transform_to_SCFG()
        snap = snapshot_blocks(scfg)
        guarded(scfg.restructure)
        before = cdump(scfg)
        fdef = guarded(SCFG2ASTTransformer().transform, original=tree[0], scfg=scfg)
        regenerate_again(scfg, tree[0], before, fdef, report, acc,
                         lambda f2: census(snap, scfg, f2, orig_names, lambda c, d: report("second-regeneration/" + c, d)))
    except NotImplementedError:
        acc.counters["programs_refused"] += 1
        return
    except Exception as e:  # noqa: BLE001  (C07's business)
        acc.counters[f"programs_pipeline_error(C07)[{type(e).__name__}]"] += 1
        return
    acc.counters["programs_censused"] += 1
    # the front end introduces reserved temporaries of its own
    text = census(snap, scfg, fdef, orig_names, report)
    acc.states += 1
    acc.transitions += sum(len(t[0]) for t in snap.values())
    acc.outcomes.add(len(text or ""))
    if len(acc.samples) < 2 and "S2/marked/5" in label:
        acc.samples.append({"label": label, "source": src, "regenerated": text})


def check_graph(g, fam, acc: Acc, opts):
    from numba_scfg.core.datastructures.ast_transforms import SCFG2ASTTransformer
    for payload in ("ast", "ast_expr"):
        scfg = make_scfg(g, payload)
        snap = snapshot_blocks(scfg)
        try:
            guarded(scfg.restructure)
        except Exception:  # noqa: BLE001
            acc.counters["graphs_restructure_raised(C02)"] += 1
            return
        orig = ast.parse("def f():\n    pass\n").body[0]
        seen = set()

        def report(clause, detail):
            if clause in seen:
                return
            seen.add(clause)
            acc.viol(PROP, f"{PROP}/{clause}", detail, (g, payload), site=payload, case=graph_case(g, fam, "JLB", payload=payload, kind="graph"))
        try:
            before = cdump(scfg)
            fdef = guarded(SCFG2ASTTransformer().transform, original=orig, scfg=scfg)
            regenerate_again(scfg, orig, before, fdef, report, acc,
                             lambda f2: census(snap, scfg, f2, {"c", "t"}, lambda c, d: report("second-regeneration/" + c, d)))
        except NotImplementedError:
            acc.counters[f"graphs_refused[{payload}]"] += 1
            continue
        except RecursionError:
            acc.counters["graphs_recursion"] += 1
            continue
        except Exception as e:  # noqa: BLE001
            et, site = exc_fingerprint(e)
            acc.viol(PROP, f"{PROP}/codegen-raises/{et}", f"SCFG2AST raised {et}: {e} at {site}", (g, payload), site=site,
                     case=graph_case(g, fam, "JLB", payload=payload, kind="graph"))
            continue
        acc.counters[f"graphs_censused[{payload}]"] += 1
        text = census(snap, scfg, fdef, {"c", "t"}, report)
        acc.states += 1
        acc.transitions += len(snap)
        acc.outcomes.add(len(text or ""))
        if len(acc.samples) < 4 and len(g) >= 5 and payload == "ast":
            acc.samples.append({"family": fam, "graph": [list(r) for r in g], "regenerated": text})


def _work(chunk):
    acc = Acc()
    for label, src in chunk:
        check_program(label, src, acc)
    return acc


# ---------------------------------------------------------------------------------------
# histories on ONE transformer instance: transform(a); transform(b)[; transform(c)] must give for the last program exactly
# what a fresh instance gives (differential oracle), and pass the census.  State carried from one call to the next
# (a cached index, a region stack left behind by a refused program, counters) shows up here and nowhere else.

def reuse_alphabet(tier: str):
    progs = list(skeleton_sources(1, "marked")) + [(f"T/{k}", v) for k, v in list(all_target_programs())[:0]]
    extra = ("T/if_in_if_in_while", "T/while_true_break", "T/loopvar_nested", "T/continue_in_while_else_if", "T/return_in_loop_else",
             "T/nested_andor_left", "T/ifexp_value")
    progs += [(k, v) for k, v in all_target_programs() if k in extra]
    return progs


def _build(src):
    from numba_scfg.core.datastructures.ast_transforms import AST2SCFGTransformer
    tree = ast.parse(src).body
    scfg = AST2SCFGTransformer(tree).transform_to_SCFG()
    snap = snapshot_blocks(scfg)
    guarded(scfg.restructure)
    return tree, scfg, snap


def _transform(tr, src):
    """-> (kind, dump, (tree, scfg, snap, fdef))"""
    try:
        tree, scfg, snap = _build(src)
    except Exception as e:  # noqa: BLE001  (front end / restructuring: other properties)
        return "unbuildable", type(e).__name__, None
    try:
        fdef = guarded(tr.transform, original=tree[0], scfg=scfg)
    except NotImplementedError:
        return "refused", "", None
    except Exception as e:  # noqa: BLE001
        return "raised", f"{type(e).__name__} at {exc_fingerprint(e)[1]}", None
    return "ok", ast.dump(fdef), (tree, scfg, snap, fdef)


def _reuse_work(args):
    from numba_scfg.core.datastructures.ast_transforms import SCFG2ASTTransformer
    firsts, alphabet, depth = args
    acc = Acc()
    fresh = {}
    for label, src in alphabet:
        k, d, _ = _transform(SCFG2ASTTransformer(), src)
        fresh[label] = (k, d)

    def histories(prefix):
        if len(prefix) >= 2:
            yield prefix
        if len(prefix) < depth:
            for item in alphabet:
                yield from histories(prefix + [item])
    for first in firsts:
        for hist in histories([first]):
            tr = SCFG2ASTTransformer()
            for label, src in hist[:-1]:
                _transform(tr, src)
            label, src = hist[-1]
            kind, dump, parts = _transform(tr, src)
            acc.states += 1
            acc.transitions += len(hist)
            acc.counters[f"reuse_histories[depth {len(hist)}]"] += 1
            names = [h[0] for h in hist]
            case = {"kind": "reuse", "labels": names, "sources": [h[1] for h in hist]}
            if (kind, dump) != fresh[label]:
                fk, fd = fresh[label]
                what = f"{kind} {dump[:120]}" if kind != "ok" else "a different tree"
                acc.viol(PROP, f"{PROP}/reused-transformer-differs", f"after transform() of {names[:-1]} the same SCFG2ASTTransformer gives for "
                         f"{label}: {what}; a fresh instance gives: {fk if fk != 'ok' else 'ok'}", (tuple(names),), case=case)
                continue
            if kind == "ok":
                tree, scfg, snap, fdef = parts
                orig_names = {n.id for n in ast.walk(tree[0]) if isinstance(n, ast.Name)}
                seen = set()

                def report(clause, detail):
                    if clause in seen or clause.startswith("hygiene/"):
                        return          # hygiene of a single program is reported by the per-program leg
                    seen.add(clause)
                    acc.viol(PROP, f"{PROP}/{clause}", f"reused transformer, {names}: {detail}", (tuple(names),), shape="reuse", case=case)
                census(snap, scfg, fdef, orig_names, report)
    return acc


def run(tier: str, seed: int):
    progs = rotate(programs(tier), seed)
    acc = Acc()
    for r in shard_map(_work, [progs[i:i + 200] for i in range(0, len(progs), 200)]):
        acc.merge(r)
    alphabet = reuse_alphabet(tier)
    depth = 2
    firsts = alphabet if tier == "quick" else alphabet
    for r in shard_map(_reuse_work, [([f], alphabet, depth) for f in firsts]):
        acc.merge(r)
    if tier != "quick":
        small = alphabet[::5]
        for r in shard_map(_reuse_work, [([f], small, 3) for f in small]):
            acc.merge(r)
    spec = graph_spec(tier)
    acc.merge(sweep(__name__, spec, {}, seed))
    cov = {"rule": "(a) every program accepted by the source pipeline (S, X, targeted) and (b) every closed CFG of the graph families built from "
                   "AST blocks (bare and Expr-wrapped test convention), restructured and passed to SCFG2AST: static census of the returned tree "
                   "by node identity and by multiset of control-variable assignments; a state is one censused output tree, a transition one "
                   "original statement / block located in it; (c) histories of 2 (thorough: 3) transform() calls on ONE SCFG2ASTTransformer "
                   "instance over the S(<=1) programs: the last result must equal a fresh instance's (ast.dump) and pass the census",
           "bounds": {"programs": len(progs), "E_max_blocks": spec["E"], "lists": {k: len(v) for k, v in spec["LISTS"].items()}},
           "programs": len(progs)}
    return {"acc": acc, "coverage": cov, "assumptions": ["pipeline crashes on programs are C07's clause and only counted here"]}


def replay(case) -> Acc:
    acc = Acc()
    if case.get("kind") == "graph":
        check_graph(tuple(tuple(r) for r in case["graph"]), case.get("family", "replay"), acc, {})
    elif case.get("kind") == "reuse":
        hist = list(zip(case["labels"], case["sources"]))
        alphabet = list({h[0]: h for h in hist}.values())
        r = _reuse_work(([hist[0]], alphabet, len(hist)))
        want = tuple(case["labels"])
        for v in r.viols:
            acc.viols.append(v)
    else:
        check_program(case.get("label", "replay"), case["source"], acc)
    return acc
