"""C10 - code generation emits every block exactly once, validly and hygienically (DESIGN 4/C10)."""
from __future__ import annotations

import ast

from ..census import census, snapshot_blocks
from ..families import as_named, make_scfg
from ..kernel import guarded, shard_map
from ..progs import all_target_programs, expr_programs, skeleton_sources, source_shapes
from ..runner import Acc
from ..sweep import exc_fingerprint, graph_case, graph_spec, rotate, sweep, staged

PROP = "C10"


def programs(tier: str):
    out = []
    if tier == "quick":
        out += list(skeleton_sources(2, "marked")) + list(skeleton_sources(2, "bare"))
        out += list(expr_programs(1, 3)) + list(expr_programs(2, 3))
    else:
        out += list(skeleton_sources(3, "marked", loop_else_upto=2)) + list(skeleton_sources(3, "bare", loop_else_upto=2))
        out += list(expr_programs(2, 4))
    out += list(all_target_programs())
    return out


def check_program(label, src, acc: Acc):
    from numba_scfg.core.datastructures.ast_transforms import AST2SCFGTransformer, SCFG2ASTTransformer
    seen = set()

    def report(clause, detail):
        if clause in seen:
            return
        seen.add(clause)
        acc.viol(PROP, f"{PROP}/{clause}", f"{label}: {detail}", (src,), case={"kind": "program", "label": label, "source": src})
    tree = ast.parse(src).body
    orig_names = {n.id for n in ast.walk(tree[0]) if isinstance(n, ast.Name)} | {a.arg for a in tree[0].args.args}
    try:
        scfg = AST2SCFGTransformer(tree).transform_to_SCFG()
        snap = snapshot_blocks(scfg)
        guarded(scfg.restructure)
        fdef = guarded(SCFG2ASTTransformer().transform, original=tree[0], scfg=scfg)
    except NotImplementedError:
        acc.counters["programs_refused"] += 1
        return
    except Exception as e:  # noqa: BLE001  (C07's business)
        acc.counters[f"programs_pipeline_error(C07)[{type(e).__name__}]"] += 1
        return
    acc.counters["programs_censused"] += 1
    # the front end introduces reserved temporaries of its own
    text = census(snap, scfg, fdef, orig_names, report)
    acc.states += 1
    acc.transitions += sum(len(t[0]) for t in snap.values())
    acc.outcomes.add(len(text or ""))
    if len(acc.samples) < 2 and "S2/marked/5" in label:
        acc.samples.append({"label": label, "source": src, "regenerated": text})


def check_graph(g, fam, acc: Acc, opts):
    from numba_scfg.core.datastructures.ast_transforms import SCFG2ASTTransformer
    for payload in ("ast", "ast_expr"):
        scfg = make_scfg(g, payload)
        snap = snapshot_blocks(scfg)
        try:
            guarded(scfg.restructure)
        except Exception:  # noqa: BLE001
            acc.counters["graphs_restructure_raised(C02)"] += 1
            return
        orig = ast.parse("def f():\n    pass\n").body[0]
        seen = set()

        def report(clause, detail):
            if clause in seen:
                return
            seen.add(clause)
            acc.viol(PROP, f"{PROP}/{clause}", detail, (g, payload), site=payload, case=graph_case(g, fam, "JLB", payload=payload, kind="graph"))
        try:
            fdef = guarded(SCFG2ASTTransformer().transform, original=orig, scfg=scfg)
        except NotImplementedError:
            acc.counters[f"graphs_refused[{payload}]"] += 1
            continue
        except RecursionError:
            acc.counters["graphs_recursion"] += 1
            continue
        except Exception as e:  # noqa: BLE001
            et, site = exc_fingerprint(e)
            acc.viol(PROP, f"{PROP}/codegen-raises/{et}", f"SCFG2AST raised {et}: {e} at {site}", (g, payload), site=site,
                     case=graph_case(g, fam, "JLB", payload=payload, kind="graph"))
            continue
        acc.counters[f"graphs_censused[{payload}]"] += 1
        text = census(snap, scfg, fdef, {"c", "t"}, report)
        acc.states += 1
        acc.transitions += len(snap)
        acc.outcomes.add(len(text or ""))
        if len(acc.samples) < 4 and len(g) >= 5 and payload == "ast":
            acc.samples.append({"family": fam, "graph": [list(r) for r in g], "regenerated": text})


def _work(chunk):
    acc = Acc()
    for label, src in chunk:
        check_program(label, src, acc)
    return acc


def run(tier: str, seed: int):
    progs = rotate(programs(tier), seed)
    acc = Acc()
    for r in shard_map(_work, [progs[i:i + 200] for i in range(0, len(progs), 200)]):
        acc.merge(r)
    spec = graph_spec(tier)
    acc.merge(sweep(__name__, spec, {}, seed))
    cov = {"rule": "(a) every program accepted by the source pipeline (S, X, targeted) and (b) every closed CFG of the graph families built from "
                   "AST blocks (bare and Expr-wrapped test convention), restructured and passed to SCFG2AST: static census of the returned tree "
                   "by node identity and by multiset of control-variable assignments; a state is one censused output tree, a transition one "
                   "original statement / block located in it",
           "bounds": {"programs": len(progs), "E_max_blocks": spec["E"], "lists": {k: len(v) for k, v in spec["LISTS"].items()}},
           "programs": len(progs)}
    return {"acc": acc, "coverage": cov, "assumptions": ["pipeline crashes on programs are C07's clause and only counted here"]}


def replay(case) -> Acc:
    acc = Acc()
    if case.get("kind") == "graph":
        check_graph(tuple(tuple(r) for r in case["graph"]), case.get("family", "replay"), acc, {})
    else:
        check_program(case.get("label", "replay"), case["source"], acc)
    return acc
