"""C15 - dictionary and YAML serialisation round-trips every graph (DESIGN 4/C15)."""
from __future__ import annotations

import itertools

from numba_scfg.core.datastructures.basic_block import (
    PythonBytecodeBlock, RegionBlock, SyntheticAssignment, SyntheticBranch,
)

from ..families import enum_closed, make_scfg, shards
from ..kernel import guarded, shard_map
from ..progs import skeleton_sources
from ..runner import Acc
from ..sweep import exc_fingerprint, graph_case, rotate, unit_graphs, units_for, frontend_graphs
from ..families import deviation_closure

PROP = "C15"
GAPS = 4          # before J, after J, after L, after B
STAGES = ("join_returns", "restructure_loop", "restructure_branch")


def sdump(scfg):
    """Fields the statement lists; order-insensitive in block names, order-sensitive in successors."""
    out = {}
    for name, b in scfg.graph.items():
        d = {"type": type(b).__name__, "name": b.name, "jt": tuple(b._jump_targets), "be": tuple(b.backedges)}
        if isinstance(b, RegionBlock):
            d.update(kind=b.kind, header=b.header, exiting=b.exiting, sub=sdump(b.subregion))
        elif isinstance(b, SyntheticBranch):
            d.update(variable=b.variable, table=dict(b.branch_value_table))
        elif isinstance(b, SyntheticAssignment):
            d.update(assign=dict(b.variable_assignment))
        elif isinstance(b, PythonBytecodeBlock):
            d.update(begin=b.begin, end=b.end)
        out[name] = d
    return out


def first_diff(a, b, path=""):
    if type(a) is not type(b):
        return f"{path}: {a!r} vs {b!r}"
    if isinstance(a, dict):
        for k in sorted(set(a) | set(b), key=str):
            if k not in a or k not in b:
                return f"{path}/{k}: {'missing in written graph' if k not in a else 'missing after re-reading'}"
            d = first_diff(a[k], b[k], f"{path}/{k}")
            if d:
                return d
        return None
    return None if a == b else f"{path}: {a!r} became {b!r}"


def histories(max_rt: int):
    """Placements of at most max_rt round trips (d = dict, y = YAML) into the 4 gaps, in order."""
    out = [()]
    for k in range(1, max_rt + 1):
        for gaps in itertools.combinations_with_replacement(range(GAPS), k):
            for kinds in itertools.product("dy", repeat=k):
                out.append(tuple(zip(gaps, kinds)))
    return out


def round_trip(scfg, kind, report, keep=None):
    from numba_scfg.core.datastructures.scfg import SCFG
    before = sdump(scfg)
    try:
        if kind == "d":
            d1 = scfg.to_dict()
            new, _ = SCFG.from_dict(d1)
        else:
            y = scfg.to_yaml()
            d1 = scfg.to_dict()
            new, _ = SCFG.from_yaml(y)
    except Exception as e:  # noqa: BLE001
        et, site = exc_fingerprint(e)
        report(f"raises/{et}", f"{'dict' if kind == 'd' else 'YAML'} round trip raised {et}: {str(e)[:120]} at {site}", site)
        return None
    after = sdump(new)
    diff = first_diff(before, after)
    if diff:
        report(f"differs/{'dict' if kind == 'd' else 'yaml'}", f"re-read graph differs at {diff}")
        return None
    try:
        d2 = new.to_dict()
    except Exception as e:  # noqa: BLE001
        et, site = exc_fingerprint(e)
        report(f"rewrite-raises/{et}", f"writing the re-read graph raised {et}: {str(e)[:120]} at {site}", site)
        return None
    if d2 != d1:
        report("rewrite-differs", f"writing the re-read graph gives a different dictionary: {first_diff(d1, d2)}")
        return None
    if keep is not None:
        import copy
        keep.append((scfg, before, d1, copy.deepcopy(d1), kind))
    return new


def check_kept(keep, report):
    """After the history went on with the RE-READ graph: the graph that was written and the dictionary it was written to are
    separate objects now - whatever happened to the re-read graph must not have changed them (a written dictionary that
    changes later cannot be read back to the graph it was written from)."""
    for old_scfg, before, d1, d1_copy, kind in keep:
        if d1 != d1_copy:
            report("written-dictionary-changed-later", f"the dictionary written earlier changed while the re-read graph was being "
                                                       f"transformed: {first_diff(d1_copy, d1)}")
        now = sdump(old_scfg)
        if now != before:
            report("written-graph-changed-later", f"the graph that was written changed while its re-read copy was being transformed: "
                                                  f"{first_diff(before, now)}")


def check_graph(g, fam, acc: Acc, opts):
    for payload in opts.get("payloads", ("basic", "bytecode")):
        for hist in opts["histories"]:
            scfg = make_scfg(g, payload)
            seen = set()
            ok = True
            keep = []
            for gap in range(GAPS):
                for (gp, kind) in hist:
                    if gp != gap:
                        continue

                    def report(clause, detail, site=""):
                        if clause in seen:
                            return
                        seen.add(clause)
                        acc.viol(PROP, f"{PROP}/{clause}", detail, (g, payload, hist), site=site or f"gap{gap}",
                                 shape=f"gap{gap}", case=graph_case(g, fam, f"gap{gap}", payload=payload, history=[list(h) for h in hist]))
                    new = round_trip(scfg, kind, report, keep)
                    acc.transitions += 1
                    if new is None:
                        ok = False
                        break
                    scfg = new
                if not ok or gap == GAPS - 1:
                    break
                try:
                    guarded(getattr(scfg, STAGES[gap]))
                    acc.transitions += 1
                except Exception:  # noqa: BLE001   continuing a re-read graph is C18 / C02 territory
                    acc.counters["continuation_raised_after_reload(C18/C02)" if hist else "stage_raised(C02)"] += 1
                    ok = False
                    break
            if keep:
                def report_end(clause, detail, site=""):
                    if clause in seen:
                        return
                    seen.add(clause)
                    acc.viol(PROP, f"{PROP}/{clause}", detail, (g, payload, hist), site="end-of-history",
                             case=graph_case(g, fam, "end", payload=payload, history=[list(h) for h in hist]))
                check_kept(keep, report_end)
            acc.states += 1
            acc.outcomes.add((payload, len(hist), ok))
    if len(acc.samples) < 2 and len(g) >= 4:
        acc.samples.append({"family": fam, "graph": [list(r) for r in g], "histories": [[list(h) for h in x] for x in opts["histories"][:6]]})


def _work(args):
    unit, opts = args
    acc = Acc()
    for fam, g in unit_graphs(unit):
        acc.counters[f"graphs[{fam}]"] += 1
        check_graph(g, fam, acc, opts)
        if 2 <= len(g) <= opts.get("relabel_max", 4):
            # the same graph under other block names / insertion orders: the reader rebuilds graphs from sorted work lists
            from ..families import labelings, set_labeling
            try:
                for lab in labelings(len(g), "few"):
                    set_labeling(lab)
                    acc.counters[f"graphs[{fam}~relabelled]"] += 1
                    check_graph(g, fam + "~", acc, {"histories": histories(1), "payloads": ("basic",)})
            finally:
                set_labeling(None)
    return acc


def check_byteflow(chunk):
    """Real bytecode graphs from the front end, every stage prefix, one round trip of each kind."""
    from numba_scfg.core.datastructures.byte_flow import ByteFlow
    acc = Acc()
    for label, src in chunk:
        ns = {}
        exec(compile(src, "<c15>", "exec"), ns)
        for kind in "dy":
            for gap in range(GAPS):
                try:
                    scfg = ByteFlow.from_bytecode(ns["f"]).scfg
                    for i in range(gap):
                        guarded(getattr(scfg, STAGES[i]))
                except Exception:  # noqa: BLE001
                    acc.counters["byteflow_unbuildable(C09/C02)"] += 1
                    break
                seen = set()

                def report(clause, detail, site=""):
                    if clause in seen:
                        return
                    seen.add(clause)
                    acc.viol(PROP, f"{PROP}/{clause}", f"{label}: {detail}", (src, gap, kind), site=site or f"gap{gap}", shape=f"gap{gap}",
                             case={"kind": "function", "label": label, "source": src, "gap": gap, "rt": kind})
                round_trip(scfg, kind, report)
                acc.states += 1
                acc.transitions += 1
    return acc


def check_raw_digraphs(args):
    """"Every graph the library can build": graphs that are NOT closed CFGs - several entries, unreachable blocks, cycles that
    nothing enters, self loops, duplicate targets - built with the public constructor and round-tripped once per format."""
    from numba_scfg.core.datastructures.basic_block import BasicBlock, PythonBytecodeBlock
    from numba_scfg.core.datastructures.scfg import SCFG
    names, maxlen, first_rows = args
    acc = Acc()
    alph = [()]
    for k in range(1, maxlen + 1):
        alph += list(itertools.product(names, repeat=k))
    for r0 in first_rows:
        for rest in itertools.product(alph, repeat=len(names) - 1):
            G = dict(zip(names, (r0,) + rest))
            for payload in ("basic", "bytecode"):
                for kind in "dy":
                    if payload == "basic":
                        blocks = {n: BasicBlock(name=n, _jump_targets=tuple(t)) for n, t in G.items()}
                    else:
                        blocks = {n: PythonBytecodeBlock(name=n, _jump_targets=tuple(t), begin=4 * i, end=4 * i + 4)
                                  for i, (n, t) in enumerate(G.items())}
                    try:
                        scfg = SCFG(graph=blocks)
                    except Exception:  # noqa: BLE001
                        acc.counters["raw_digraph_not_constructible"] += 1
                        continue
                    seen = set()

                    def report(clause, detail, site=""):
                        if clause in seen:
                            return
                        seen.add(clause)
                        acc.viol(PROP, f"{PROP}/{clause}", f"graph {G}: {detail}", (tuple(sorted(G.items())), payload, kind), site=site or "raw",
                                 shape="raw-digraph", case={"kind": "raw", "graph": {k: list(v) for k, v in G.items()}, "payload": payload, "rt": kind})
                    round_trip(scfg, kind, report)
                    acc.states += 1
                    acc.transitions += 1
                    acc.counters["raw_digraph_round_trips"] += 1
    return acc


def run(tier: str, seed: int):
    h2, h1 = histories(2), histories(1)
    units = []
    if tier == "quick":
        units += [(u, {"histories": h2}) for u in units_for({"E": 4})]
        units += [(("E", 5, p), {"histories": h1}) for _, p in shards(5, 3)]
    else:
        units += [(u, {"histories": h2}) for u in units_for({"E": 5})]
        d = deviation_closure(frontend_graphs(1), 1)
        units += [(u, {"histories": h2}) for u in units_for({"LISTS": {"D(S1,1)": d}})]
    acc = Acc()
    for r in shard_map(_work, rotate(units, seed)):
        acc.merge(r)
    raw_units = []
    for names, maxlen in ((("a", "b", "c"), 2), (("a", "b", "c", "d"), 1)):
        alph = [()]
        for k in range(1, maxlen + 1):
            alph += list(itertools.product(names, repeat=k))
        raw_units += [(names, maxlen, [r0]) for r0 in alph]
    for r in shard_map(check_raw_digraphs, raw_units):
        acc.merge(r)
    # one block of every registered type, with payload, hand-built (types such as the base SyntheticBranch never come out of the
    # restructuring passes but are legal inputs of the writer and the reader)
    from ..families import one_of_each_type
    for kind in "dy":
        scfg, types = one_of_each_type()
        seen_t = set()

        def report_t(clause, detail, site=""):
            if clause in seen_t:
                return
            seen_t.add(clause)
            acc.viol(PROP, f"{PROP}/{clause}", f"graph with one block of every registered type ({kind}): {detail}", ("one-of-each", kind),
                     site=site or "one-of-each", shape="one-of-each-type", case={"kind": "one-of-each", "rt": kind})
        round_trip(scfg, kind, report_t)
        acc.states += 1
        acc.counters["one_of_each_type_round_trips"] += 1
    progs = list(skeleton_sources(1 if tier == "quick" else 2, "marked"))
    for r in shard_map(check_byteflow, [progs[i:i + 100] for i in range(0, len(progs), 100)]):
        acc.merge(r)
    cov = {"rule": "histories = stage pipeline J, L, B with at most k write/read round trips (dict or YAML) inserted in the 4 gaps (all placements, "
                   "all kinds, chains included); each round trip calls the real writer and reader; oracle: no exception, listed fields equal "
                   "(successor ORDER included), re-written dictionary equal; plus real bytecode graphs of skeleton functions at every prefix; "
                   "plus ALL digraphs on 3 names (target lists <= 2) and 4 names (<= 1) built with the constructor - not closed: several "
                   "entries, unreachable cycles, duplicates - once per format; plus: what was written must not change afterwards; "
                   "a state is one history executed, a transition one round trip or stage",
           "bounds": {"max_round_trips": 2, "E_with_2_round_trips": 4 if tier == "quick" else 5, "E_with_1_round_trip": 5,
                      "histories_per_graph": len(h2), "byteflow_programs": len(progs)}}
    return {"acc": acc, "coverage": cov, "assumptions": [
        "AST-payload graphs are outside the domain (no registry entry; the statement does not list them)",
        "dict insertion order of the block map is not among the listed fields and is not compared"]}


def replay(case) -> Acc:
    acc = Acc()
    if case.get("kind") == "function":
        r = check_byteflow([(case["label"], case["source"])])
        return r
    if case.get("kind") == "one-of-each":
        from ..families import one_of_each_type
        scfg, _ = one_of_each_type()
        round_trip(scfg, case["rt"], lambda clause, detail, site="": acc.viol(PROP, f"{PROP}/{clause}", detail, ("one-of-each",)))
        return acc
    if case.get("kind") == "raw":
        G = {k: tuple(v) for k, v in case["graph"].items()}
        names = tuple(G)
        r = check_raw_digraphs((names, max(len(v) for v in G.values()) or 1, [G[names[0]]]))
        want = tuple(sorted(G.items()))
        acc.viols = [v for v in r.viols if str(G) in v["detail"] or True][:0] or [v for v in r.viols if f"graph {G}:" in v["detail"]]
        return acc
    g = tuple(tuple(r) for r in case["graph"])
    hist = tuple(tuple(h) for h in case.get("history", []))
    check_graph(g, case.get("family", "replay"), acc, {"histories": [hist]})
    return acc
