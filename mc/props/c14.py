"""C14 - graph edit primitives reroute exactly the requested arcs (DESIGN 4/C14).

K-BFS over operation sequences; every transition calls the real edit method on a graph rebuilt by
replaying the history; a plain-dict reference model is updated in lock-step and compared.
"""
from __future__ import annotations

import itertools

from numba_scfg.core.datastructures.basic_block import (
    BasicBlock, RegionBlock, SyntheticAssignment, SyntheticBranch, SyntheticExit, SyntheticFill, SyntheticHead,
    SyntheticReturn, SyntheticTail,
)

from ..canon import cdump
from ..families import as_named, entry_name, enum_closed, labelings, make_scfg, set_labeling
from ..hier import Hier
from ..kernel import shard_map
from ..runner import Acc
from ..sweep import exc_fingerprint, rotate
from ..walk import product

PROP = "C14"
TYPES = {"tail": SyntheticTail, "exit": SyntheticExit, "fill": SyntheticFill, "return": SyntheticReturn}


WIDE = (
    ((1, 2, 3), (4,), (4,), (4,), ()),
    ((1, 2, 3), (), (), ()),
    ((1,), (2, 3, 4), (5,), (5,), (5,), ()),
    ((1, 2), (3, 4, 5), (3, 4, 5), (), (), ()),
    ((1, 2, 3, 4), (5,), (5,), (), (), ()),
)


WIDE_LOOPS = (
    ((1, 2), (1, 3, 4), (3, 4), (5,), (5,), ()),
    ((1,), (1, 2, 3), (4,), (4,), ()),
    ((1, 2), (2, 1, 3), (3, 4), (4,), ()),
    ((1, 2), (3,), (2, 3, 4), (4,), ()),
)


def arcs_of(scfg):
    return {k: tuple(b._jump_targets) for k, b in scfg.graph.items()}


def subsets(items, maxk):
    for k in range(1, maxk + 1):
        yield from itertools.combinations(items, k)


def enabled_ops(scfg, maxk: int):
    """Finite menu of edit operations on the top-level graph."""
    G = {k: tuple(b.jump_targets) for k, b in scfg.graph.items()}
    keys = list(G)
    ops = [("join_returns",)]
    allt = sorted({t for ts in G.values() for t in ts if t in G})
    for S in subsets(allt, maxk):
        preds = [p for p in keys if any(t in S for t in G[p])]
        for P in subsets(preds, maxk):
            if not all(any(s in G[p] for p in P) for s in S):
                continue
            for ty in ("tail", "exit"):
                ops.append(("insert_block", ty, P, S))
            ops.append(("insert_control", P, S))
            ops.append(("join_tails_and_exits", P, S))
            # "whose successors are exactly S": S handed over in another order, and S with a member that no block of P jumps to
            if len(S) >= 2:
                ops.append(("insert_block", "tail", P, tuple(reversed(S))))
                ops.append(("insert_control", P, tuple(reversed(S))))
            if len(S) == 3:
                for perm in ((S[1], S[2], S[0]), (S[2], S[0], S[1]), (S[0], S[2], S[1]), (S[1], S[0], S[2])):
                    ops.append(("insert_block", "tail", P, perm))
            if len(S) < maxk:
                for e in keys:
                    if e not in S and not any(e in G[p] for p in P):
                        ops.append(("insert_block", "tail", P, S + (e,), "loose"))
                        ops.append(("insert_control", P, (e,) + S, "loose"))
                        break
    # P without any arc into S (e.g. the same insertion requested a second time): the new block still has successors S
    for s_ in allt[:2]:
        for p_ in keys:
            if s_ not in G[p_] and p_ != s_:
                ops.append(("insert_block", "tail", (p_,), (s_,), "loose"))
                ops.append(("insert_control", (p_,), (s_,), "loose"))
                break
    exits = [k for k in keys if not G[k]]
    for P in subsets(exits, maxk):
        ops.append(("insert_block", "return", P, ()))
    return ops


def model_insert(model, new, P, S):
    """Reference: every arc P->S goes through new, new->S in the order of S; nothing else changes."""
    m = {k: list(v) for k, v in model.items()}
    m[new] = list(S)
    touched = {}
    for p in P:
        old = m[p]
        if S:
            hit = [i for i, t in enumerate(old) if t in S]
            rest = [t for t in old if t not in S]
            touched[p] = (old, hit, rest)
        else:
            touched[p] = (old, [], list(old))
    return m, touched


class Failure(Exception):
    def __init__(self, clause, detail):
        self.clause, self.detail = clause, detail


def eff_table(b):
    """Value table of the block that actually leaves `b` (through the exiting blocks of regions), or None."""
    while isinstance(b, RegionBlock):
        b = b.subregion.graph[b.exiting]
    return dict(b.branch_value_table) if isinstance(b, SyntheticBranch) else None


def compare_insert(before, after_scfg, new, P, S, ident_before, control: bool, tables_before=None):
    after = arcs_of(after_scfg)
    for k, v in before.items():
        if k in P:
            continue
        if k not in after:
            raise Failure("other-block-removed", f"block {k!r} disappeared")
        if after[k] != v:
            raise Failure("other-arc-changed", f"arcs of untouched block {k!r} changed {v} -> {after[k]}")
        if after_scfg.graph[k] is not ident_before[k]:
            raise Failure("other-block-replaced", f"untouched block {k!r} was replaced by another object")
    if new not in after:
        raise Failure("new-block-missing", f"new block {new!r} is not in the graph")
    if after[new] != tuple(S):
        raise Failure("new-block-successors", f"new block {new!r} has successors {after[new]}, requested {tuple(S)}")
    added = set(after) - set(before) - {new}
    if not control and added:
        raise Failure("unexpected-blocks", f"unexpected new blocks {sorted(added)}")
    narcs = 0
    for p in P:
        old, now = before[p], after[p]
        hits = [t for t in old if t in S]
        if not S:
            if now != old + (new,):
                raise Failure("append-arc", f"predecessor {p!r}: {old} -> {now}, expected the new block appended")
            continue
        rest_old = tuple(t for t in old if t not in S)
        if control:
            # every rerouted arc gets its own assignment block, positionally
            if len(now) != len(old):
                raise Failure("control/arity", f"predecessor {p!r}: {old} -> {now}")
            for i, (o, n) in enumerate(zip(old, now)):
                if o in S:
                    narcs += 1
                    b = after_scfg.graph.get(n)
                    if n not in added or not isinstance(b, SyntheticAssignment):
                        raise Failure("control/no-assignment", f"arc {p!r}->{o!r} now goes to {n!r} which is not a fresh assignment block")
                    if tuple(b._jump_targets) != (new,):
                        raise Failure("control/assignment-target", f"assignment {n!r} continues to {b._jump_targets}, not to {new!r}")
                    head = after_scfg.graph[new]
                    if not isinstance(head, SyntheticHead) or len(b.variable_assignment) != 1 or head.variable not in b.variable_assignment:
                        raise Failure("control/variable", f"assignment {n!r} does not set the head's variable")
                    val = b.variable_assignment[head.variable]
                    if head.branch_value_table.get(val) != o:
                        raise Failure("control/table", f"head maps value {val} to {head.branch_value_table.get(val)!r}, the arc's original target is {o!r}")
                elif n != o:
                    raise Failure("other-arc-changed", f"predecessor {p!r}: slot {i} {o!r} -> {n!r} although {o!r} is not a requested successor")
            continue
        rest_now = tuple(t for t in now if t != new)
        if rest_now != rest_old:
            raise Failure("remaining-order", f"predecessor {p!r}: remaining successors {rest_old} became {rest_now}")
        cnt = sum(1 for t in now if t == new)
        if hits and cnt != 1:
            raise Failure("arc-not-rerouted", f"predecessor {p!r}: {old} -> {now}; the new block occurs {cnt} times")
        if not hits and cnt:
            raise Failure("arc-invented", f"predecessor {p!r} had no arc into {S} but now targets the new block")
        if len(hits) == 1 and now.index(new) != old.index(hits[0]):
            raise Failure("position", f"predecessor {p!r}: {old} -> {now}; the rerouted arc moved to another slot")
    if control:
        assigns = [a for a in added]
        if len(assigns) != narcs:
            raise Failure("control/assignment-count", f"{narcs} arcs rerouted but {len(assigns)} blocks added: {sorted(added)}")
        head = after_scfg.graph[new]
        if sorted(head.branch_value_table.values()) != sorted(
                [o for p in P for o in before[p] if o in S]) and set(head.branch_value_table.values()) != set(S):
            raise Failure("control/table", f"head table {head.branch_value_table} does not cover arcs into {S}")
    # regions used as predecessors must stay in sync with their exiting block
    for p in P:
        b = after_scfg.graph[p]
        while isinstance(b, RegionBlock):
            ex = b.subregion.graph[b.exiting]
            want = tuple(t for t in ex.jump_targets if t not in b.subregion.graph)
            if tuple(b._jump_targets) != want:
                raise Failure("region-predecessor-out-of-sync", f"region {b.name!r} targets {b._jump_targets} but exiting block {b.exiting!r} leaves to {want}")
            b = ex
        if isinstance(b, SyntheticBranch):
            if set(b.branch_value_table.values()) != set(b._jump_targets):
                raise Failure("branching-predecessor-table", f"{type(b).__name__} {b.name!r}: table {b.branch_value_table} vs targets {b._jump_targets}")
            # every control value keeps a table entry: a value whose target stays outside S keeps it, a value whose target
            # is in S now leads to the new block (or, with control blocks, to one of the blocks added for that arc)
            told = (tables_before or {}).get(p)
            if told is not None:
                tnew = dict(b.branch_value_table)
                for val, tgt in told.items():
                    if val not in tnew:
                        raise Failure("branching-predecessor-table-keys", f"{type(b).__name__} {b.name!r}: value {val} (was -> {tgt!r}) has no "
                                                                            f"table entry after the insertion: {told} became {tnew}")
                    if tgt in S:
                        ok = tnew[val] in added if control else tnew[val] == new
                    else:
                        ok = tnew[val] == tgt
                    if not ok:
                        raise Failure("branching-predecessor-table-keys", f"{type(b).__name__} {b.name!r}: value {val} led to {tgt!r}, now to "
                                                                            f"{tnew[val]!r}: {told} became {tnew}")
                if set(tnew) - set(told):
                    raise Failure("branching-predecessor-table-keys", f"{type(b).__name__} {b.name!r}: table gained values {sorted(set(tnew) - set(told))}")


def apply_op(scfg, op, check=True):
    """Apply one operation to the real graph; compare with the reference.  Returns a label."""
    before = arcs_of(scfg)
    ident = dict(scfg.graph)
    tables = {k: eff_table(b) for k, b in scfg.graph.items()}
    kind = op[0]
    if kind == "join_returns":
        exits = [k for k, v in before.items() if not scfg.graph[k].is_exiting is False and not scfg.graph[k].jump_targets]
        scfg.join_returns()
        after = arcs_of(scfg)
        if len(exits) <= 1:
            if after != before or any(scfg.graph[k] is not ident[k] for k in before):
                raise Failure("join_returns/not-noop", f"graph with {len(exits)} exits was changed")
            return
        now_exits = [k for k, b in scfg.graph.items() if not b.jump_targets]
        if len(now_exits) != 1:
            raise Failure("join_returns/exit-count", f"{len(now_exits)} blocks without successors afterwards")
        x = now_exits[0]
        for e in exits:
            if x not in after[e]:
                raise Failure("join_returns/not-reached", f"former exit {e!r} does not continue to the common exit {x!r}")
        for k in before:
            if k not in exits and after.get(k) != before[k]:
                raise Failure("other-arc-changed", f"join_returns changed {k!r}")
        return
    if kind == "insert_block":
        _, ty, P, S = op[:4]
        new = scfg.name_gen.new_block_name("synth_" + ty)
        scfg.insert_block(new, list(P), list(S), TYPES[ty])
        if type(scfg.graph.get(new)) is not TYPES[ty]:
            raise Failure("new-block-type", f"new block is {type(scfg.graph.get(new)).__name__}")
        compare_insert(before, scfg, new, P, S, ident, control=False, tables_before=tables)
        return
    if kind == "insert_control":
        _, P, S = op[:3]
        new = scfg.name_gen.new_block_name("synth_head")
        scfg.insert_block_and_control_blocks(new, list(P), list(S))
        compare_insert(before, scfg, new, P, S, ident, control=True, tables_before=tables)
        return
    if kind == "join_tails_and_exits":
        _, T, E = op
        given = [(t, e) for t in T for e in E if e in before[t]]
        tail, exit_ = scfg.join_tails_and_exits(list(T), list(E))
        after = arcs_of(scfg)
        if tail not in after or (exit_ not in after and exit_ not in E):
            raise Failure("jte/returned-missing", f"returned ({tail!r}, {exit_!r}) not in the graph")
        for t, e in given:
            # follow from t towards e through the returned blocks only
            chain = [t]
            cur = t
            for _ in range(3):
                nxt = None
                if e in after[cur] and cur in (tail, exit_) or (e in after[cur] and cur == t and t == tail and exit_ == e):
                    nxt = e
                elif tail in after[cur] and cur != tail:
                    nxt = tail
                elif exit_ in after[cur] and cur != exit_:
                    nxt = exit_
                if nxt is None:
                    break
                chain.append(nxt)
                cur = nxt
                if cur == e:
                    break
            if chain[-1] != e or tail not in chain or exit_ not in chain:
                raise Failure("jte/arc-bypasses", f"arc {t!r}->{e!r} now runs {chain}, returned tail/exit are ({tail!r}, {exit_!r})")
        return
    raise ValueError(op)


def path_preserving(history):
    for op in history:
        if op[0] == "insert_block" and len(op[3]) > 1:
            return False
        if op[0] == "join_tails_and_exits":
            return False
    return True


def build(g, pre, history):
    scfg = make_scfg(g)
    if pre:
        scfg.join_returns()
        scfg.restructure_loop()
    if pre == 2:
        scfg.restructure_branch()      # fully restructured: regions whose exiting "block" is itself a region
    for op in history:
        apply_op(scfg, op)
    return scfg


def explore(g, pre, depth, maxk, acc: Acc, fam):
    from ..kernel import bfs
    G0 = as_named(g)

    def key(state):
        scfg = state[1]
        return (cdump(scfg), tuple(sorted(scfg.name_gen.kinds.items())))

    def successors(state):
        history, scfg = state
        for op in enabled_ops(scfg, maxk):
            h2 = history + (op,)
            try:
                nxt = build(g, pre, history)
                apply_op(nxt, op)
            except Failure as f:
                acc.viol(PROP, f"{PROP}/{f.clause}", f"after {list(history)} on {g}: {op}: {f.detail}", (g, pre, h2), site=op[0],
                         case=_case(g, pre, h2))
                continue
            except AssertionError as e:
                et, site = exc_fingerprint(e)
                if op[0] == "join_tails_and_exits" and "unreachable" in str(e):
                    acc.viol(PROP, f"{PROP}/jte/unsupported-shape", f"{op}: join_tails_and_exits has no case for {len(op[1])} tail(s) and {len(op[2])} exits",
                             (g, pre, h2), site=site, case=_case(g, pre, h2))
                else:
                    acc.viol(PROP, f"{PROP}/raises/{et}", f"after {list(history)} on {g}: {op} raised {et} at {site}", (g, pre, h2), site=site,
                             case=_case(g, pre, h2))
                continue
            except Exception as e:  # noqa: BLE001
                et, site = exc_fingerprint(e)
                acc.viol(PROP, f"{PROP}/raises/{et}", f"after {list(history)} on {g}: {op} raised {et}: {e} at {site}", (g, pre, h2), site=site,
                         case=_case(g, pre, h2))
                continue
            if op[-1] == "loose":
                # S has members that no block of P jumps to: only the clauses about the new block and the touched arcs apply; the
                # resulting graph (a new block nobody reaches, or a head successor without a table value) is not explored further
                acc.counters["loose_insertions_checked"] += 1
                continue
            if path_preserving(h2):
                r = product(G0, entry_name(), Hier(nxt), "name", max_violations=1)
                acc.counters["path_products"] += 1
                for clause, detail, path in r.violations:
                    acc.viol(PROP, f"{PROP}/paths/{clause}", f"after {list(h2)} on {g}: {detail}", (g, pre, h2, "paths"), site=op[0],
                             case=_case(g, pre, h2))
            acc.outcomes.add(op[0])
            yield op, (h2, nxt)

    init = ((), build(g, pre, ()))
    st = bfs([init], successors, key=key, max_depth=depth)
    acc.states += st.states
    acc.transitions += st.transitions
    acc.counters[f"max_depth_reached"] = max(acc.counters.get("max_depth_reached", 0), st.max_depth)
    if len(acc.samples) < 2 and len(g) >= 3:
        acc.samples.append({"graph": [list(r) for r in g], "pre_restructured_loops": pre, "depth": depth,
                            "first_ops": [list(map(_j, o)) for o in enabled_ops(init[1], maxk)[:6]]})


def _j(x):
    return list(x) if isinstance(x, tuple) else x


def _case(g, pre, h2):
    from ..families import get_labeling
    d = {"graph": [list(r) for r in g], "pre_restructured_loops": pre, "history": [list(map(_j, o)) for o in h2]}
    lab = get_labeling()
    if lab is not None:
        d["labeling"] = {"prefix": lab[0], "names": list(lab[1]), "insertion_order": list(lab[2])}
        if len(lab) > 3:
            d["labeling"]["generator"] = lab[3]
    return d


def _work(args):
    g, pre, depth, maxk = args[:4]
    lab = args[4] if len(args) > 4 else None
    acc = Acc()
    set_labeling(lab)
    try:
        explore(g, pre, depth, maxk, acc, "E")
    except Exception as e:  # noqa: BLE001
        if pre:
            acc.counters["initial_state_unbuildable"] += 1
        else:
            raise
    finally:
        set_labeling(None)
    if lab is not None:
        acc.counters["relabelled_initial_graphs"] += 1
    return acc


def run(tier: str, seed: int):
    units = []
    # (exact number of blocks, depth, max |P| and |S|)
    if tier == "quick":
        plan = [(1, 3, 2), (2, 3, 2), (3, 2, 3), (4, 1, 3)]
    else:
        plan = [(1, 3, 2), (2, 3, 2), (3, 2, 3), (4, 2, 2), (5, 1, 2)]
    for n, depth, maxk in plan:
        for g in enum_closed(n):
            for pre in (False, True):
                units.append((g, pre, depth, maxk))
                # the same graph under other names / insertion orders (depth 1): the primitives sort predecessors and successors
                if pre and 3 <= n <= 5:
                    units.append((g, 2, 1, maxk))
                if 3 <= n <= 4:
                    for lab in labelings(n, "few+ns" if n == 3 else "few"):
                        units.append((g, pre, 1, maxk, lab))
    # "all graphs": blocks with three successors, several of them in S at once (outside the closed-CFG input domain of the
    # pipeline, inside the domain of the edit primitives)
    for g in WIDE:
        units.append((g, False, 1 if tier == "quick" else 2, 3))
        # fully restructured: a head REGION whose exiting block has three targets; S is also offered in other orders
        units.append((g, 2, 1, 3))
    # loops whose single latch has two exits: after loop restructuring the loop REGION has two outgoing targets
    for g in WIDE_LOOPS:
        units.append((g, True, 1 if tier == "quick" else 2, 3))
    acc = Acc()
    for r in shard_map(_work, rotate(units, seed)):
        acc.merge(r)
    cov = {"rule": "explicit-state BFS over sequences of edit operations {insert_block (tail/exit/return types), insert_block_and_control_blocks, "
                   "join_returns, join_tails_and_exits} with ALL predecessor/successor subsets up to the size bound, from every closed CFG of "
                   "the listed sizes, both flat and after join_returns+restructure_loop (region predecessors); every transition calls the real "
                   "method and is compared with a plain-dict reference; path preservation checked by the product construction; states are "
                   "deduplicated by exact canonical dump + name-generator counters",
           "bounds": {"plan(n, depth, max |P|,|S|)": plan, "initial_graphs": len(units)},
           "exhaustive": True}
    return {"acc": acc, "coverage": cov, "assumptions": [
        "where several arcs of one predecessor collapse into the new block its slot is unconstrained; the remaining successors keep their order",
        "path preservation is demanded only of histories made of control-block insertions, single-successor insertions and join_returns"]}


def replay(case) -> Acc:
    acc = Acc()
    g = tuple(tuple(r) for r in case["graph"])
    hist = tuple(tuple(tuple(x) if isinstance(x, list) else x for x in op) for op in case["history"])
    G0 = as_named(g)
    try:
        scfg = build(g, case["pre_restructured_loops"], hist)
        if path_preserving(hist):
            r = product(G0, entry_name(), Hier(scfg), "name", max_violations=1)
            for clause, detail, path in r.violations:
                acc.viol(PROP, f"{PROP}/paths/{clause}", detail, (g,))
    except Failure as f:
        acc.viol(PROP, f"{PROP}/{f.clause}", f.detail, (g,))
    except AssertionError as e:
        et, site = exc_fingerprint(e)
        clause = f"{PROP}/jte/unsupported-shape" if "unreachable" in str(e) else f"{PROP}/raises/{et}"
        acc.viol(PROP, clause, f"raised {et} at {site}", (g,))
    except Exception as e:  # noqa: BLE001
        et, site = exc_fingerprint(e)
        acc.viol(PROP, f"{PROP}/raises/{et}", f"raised {et} at {site}", (g,))
    return acc
