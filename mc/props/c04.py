"""C04 - the region hierarchy is self-consistent (DESIGN 4/C04)."""
from __future__ import annotations

import collections

from numba_scfg.core.datastructures.basic_block import RegionBlock

from ..families import as_named
from ..hier import Hier
from ..runner import Acc
from ..sweep import graph_case, graph_spec, staged, sweep
from ..walk import WalkFail, WName, WRegion

PROP = "C04"


def designates(p, R, subregion) -> bool:
    """``p`` designates the region (name, graph identity) - not Python object identity."""
    return p is not None and p.name == R.name and p.subregion is subregion


def closure_name(hier: Hier):
    W = WName(hier)
    seen, todo = set(), [W.start()]
    while todo:
        pos = todo.pop()
        if pos in seen:
            continue
        seen.add(pos)
        b = W.block(pos)
        for t in b._jump_targets:
            todo.append(W.goto(pos, t, t in b.backedges))
    return seen


def closure_region(hier: Hier):
    W = WRegion(hier)
    seen, out, todo = set(), set(), [W.start()]
    while todo:
        pos = todo.pop()
        key = (tuple(r.name for r in pos[0]), pos[1])
        if key in seen:
            continue
        seen.add(key)
        out.add(pos[1])
        b = W.block(pos)
        for t in b._jump_targets:
            todo.append(W.goto(pos, t, t in b.backedges))
    return out


def check_hierarchy(scfg, report):
    hier = Hier(scfg)
    for clause, detail in hier.problems:
        report(clause, detail)
    for level, region, depth in hier.levels:
        keys = set(level.graph)
        scope = hier.scope_names(level, region)
        targeted = set()
        for k, b in level.graph.items():
            for t in b.jump_targets:
                if t in keys and t != k:
                    targeted.add(t)
        untargeted = [k for k in level.graph if k not in targeted]
        if region is not None:
            if region.header not in keys:
                report("header-outside", f"region {region.name!r} declares header {region.header!r}, not a key of its graph {sorted(keys)}")
            if region.exiting not in keys:
                report("exiting-outside", f"region {region.name!r} declares exiting {region.exiting!r}, not a key of its graph {sorted(keys)}")
            if region.header in keys and set(untargeted) != {region.header}:
                report("enter-only-at-header", f"in region {region.name!r} the blocks not targeted by a sibling are {sorted(untargeted)}, header is {region.header!r}")
            if not designates(getattr(level, "region", None), region, level):
                lr = getattr(level, "region", None)
                report("parent/subgraph-region", f"sub-graph of region {region.name!r} records region {lr.name if lr else None!r}")
        else:
            if len(untargeted) != 1:
                report("top-level-head", f"top-level graph has {len(untargeted)} blocks without predecessor: {sorted(untargeted)}")
        for k, b in level.graph.items():
            leaves = False
            for t in tuple(b._jump_targets) + tuple(b.backedges):
                if t not in scope:
                    report("dangling-name", f"{k!r} in {region.name if region else '<top>'} names {t!r} which is neither in its own graph nor in an enclosing one")
                if t not in keys:
                    leaves = True
            if not b._jump_targets:
                leaves = True
            if region is not None and leaves and region.exiting != k:
                report("leave-only-from-exiting", f"{k!r} leaves region {region.name!r} (targets {b._jump_targets!r}) but the exiting block is {region.exiting!r}")
            if isinstance(b, RegionBlock):
                sub = b.subregion
                if sub is not None and b.exiting in sub.graph:
                    ex = sub.graph[b.exiting]
                    want = tuple(t for t in ex.jump_targets if t not in sub.graph)
                    if tuple(b._jump_targets) != want:
                        report("targets-in-sync", f"region {k!r} declares jump targets {b._jump_targets!r} but its exiting block {b.exiting!r} leaves towards {want!r}")
                parent_sub = level
                pr = b.parent_region
                if region is not None:
                    if not designates(pr, region, parent_sub):
                        report("parent/recorded", f"region {k!r} lies in {region.name!r} but records parent {pr.name if pr else None!r}")
                else:
                    meta = getattr(level, "region", None)
                    if meta is None or pr is None or pr.name != meta.name or pr.subregion is not level:
                        report("parent/recorded", f"top-level region {k!r} records parent {pr.name if pr else None!r}, the graph's meta region is {meta.name if meta else None!r}")
    # consequence: both walks visit the same things
    try:
        a = closure_name(hier)
        b = closure_region(hier)
        if a != b:
            report("walks-differ", f"by-name walk visits {sorted(a - b)} that the region walk does not, region walk visits {sorted(b - a)} extra")
    except WalkFail as e:
        report("walk/" + e.clause.split("/", 1)[-1], e.detail)
    return hier


def check_graph(g, fam, acc: Acc, opts):
    payload = opts.get("payload", "basic")
    for stage, scfg, exc in staged(g, payload):
        if exc is not None:
            acc.counters[f"skipped_stage_raised[{stage}]"] += 1
            return
        seen = set()

        def report(clause, detail):
            if clause in seen:
                return
            seen.add(clause)
            acc.viol(PROP, f"{PROP}/{clause}", detail, (g, stage), site=stage, case=graph_case(g, fam, stage, payload=payload))
        h = check_hierarchy(scfg, report)
        acc.states += len(h.flat)
        acc.transitions += sum(len(e.block._jump_targets) + len(e.block.backedges) for e in h.flat.values())
        acc.outcomes.add((stage, len(h.levels), len(h.flat)))
    if len(acc.samples) < 3 and len(g) >= 5:
        acc.samples.append({"family": fam, "graph": [list(r) for r in g], "stages": ["J", "JL", "JLB"]})


def run(tier: str, seed: int):
    spec = graph_spec(tier)
    acc = sweep(__name__, spec, {}, seed)
    cov = {"rule": "every closed CFG of the listed families x stage prefixes; a state is one block or region of the hierarchy, a "
                   "transition one jump target / back edge resolved; oracle: uniqueness, header/exiting membership, enter-at-header, "
                   "leave-from-exiting, scope rule, region targets in sync with exiting block, parent designation, walk agreement",
           "bounds": {"E_max_blocks": spec["E"], "lists": {k: len(v) for k, v in spec["LISTS"].items()}, "fig": True},
           "instances": sum(v for k, v in acc.counters.items() if k.startswith("graphs["))}
    return {"acc": acc, "coverage": cov, "assumptions": [
        "parent_region is checked by designation (name + sub-graph identity), not Python object identity",
        "region outgoing targets = forward jump targets; regions never carry back edges in this library"]}


def replay(case) -> Acc:
    acc = Acc()
    check_graph(tuple(tuple(r) for r in case["graph"]), case.get("family", "replay"), acc, {"payload": case.get("payload", "basic")})
    return acc
