"""C05 - original blocks are conserved (DESIGN 4/C05)."""
from __future__ import annotations

import ast

from numba_scfg.core.datastructures.basic_block import (
    PythonASTBlock, PythonBytecodeBlock, RegionBlock, SyntheticBlock,
)

from ..families import as_named, entry_name, get_labeling
from ..hier import Hier
from ..runner import Acc
from ..sweep import graph_case, graph_spec, staged, sweep
from ..walk import product

PROP = "C05"
PAYLOADS = ("basic", "bytecode", "ast")


def snapshot(scfg):
    snap = {}
    for name, b in scfg.graph.items():
        pl = None
        if isinstance(b, PythonBytecodeBlock):
            pl = ("bc", b.begin, b.end)
        elif isinstance(b, PythonASTBlock):
            pl = ("ast", b.begin, b.end, id(b.tree), tuple(id(s) for s in b.tree), tuple(ast.dump(s) for s in b.tree), b.tree)
        snap[name] = (type(b), tuple(b._jump_targets), pl)
    return snap


def compare(snap, scfg, stage, report):
    hier = Hier(scfg)
    for clause, detail in hier.problems:
        report(clause, detail)
    leaves = hier.leaves()
    count = {}
    for level, region, depth in hier.levels:
        for k, b in level.graph.items():
            if not isinstance(b, RegionBlock):
                count[b.name] = count.get(b.name, 0) + 1
    for name, (typ, jts, pl) in snap.items():
        if name not in leaves:
            report("lost", f"input block {name!r} is no longer a leaf of the hierarchy")
            continue
        if count.get(name, 0) != 1:
            report("duplicated", f"input block {name!r} occurs {count.get(name)} times")
        b = leaves[name]
        if type(b) is not typ:
            report("type-changed", f"input block {name!r} changed type {typ.__name__} -> {type(b).__name__}")
            continue
        if pl is not None:
            if pl[0] == "bc" and (b.begin, b.end) != pl[1:]:
                report("payload-altered", f"bytecode range of {name!r} changed {pl[1:]} -> {(b.begin, b.end)}")
            if pl[0] == "ast":
                if (b.begin, b.end) != pl[1:3]:
                    report("payload-altered", f"line range of {name!r} changed")
                if b.tree is not pl[6] or tuple(id(s) for s in b.tree) != pl[4]:
                    report("payload-altered", f"statement list of {name!r} is not the same object / holds different statement objects")
                elif tuple(ast.dump(s) for s in b.tree) != pl[5]:
                    report("payload-altered", f"statements of {name!r} were modified in place")
        new = tuple(b._jump_targets)
        if len(jts) == 0:
            if len(new) > 1 or (len(new) == 1 and (new[0] in snap)):
                report("exit-gained-edges", f"exit block {name!r} now has targets {new!r}")
            continue
        if len(new) != len(jts):
            report("arity-changed", f"block {name!r} had targets {jts!r}, now {new!r}")
            continue
        for i, (o, n) in enumerate(zip(jts, new)):
            if n != o and n in snap:
                report("successor-swapped", f"slot {i} of {name!r} was {o!r}, now names the different input block {n!r}")
            if n != o and n not in hier.flat:
                report("successor-dangling", f"slot {i} of {name!r} was {o!r}, now {n!r} which does not exist")
        for t in b.backedges:
            if t not in new:
                report("backedge-not-target", f"{name!r} declares back edge {t!r} not among its targets {new!r}")
    for name, b in leaves.items():
        if name not in snap and not isinstance(b, SyntheticBlock):
            report("added-non-synthetic", f"added block {name!r} is a {type(b).__name__}, not a synthetic block")
    if stage == "J":
        gained = [n for n, (t, j, p) in snap.items() if len(j) == 0 and len(leaves[n]._jump_targets) == 1] if all(n in leaves for n in snap) else []
        nexits = sum(1 for (t, j, p) in snap.values() if len(j) == 0)
        if nexits <= 1 and gained:
            report("exit-gained-edges", f"single exit gained an edge: {gained}")
    return hier


def check_graph(g, fam, acc: Acc, opts):
    # names and payload types do not interact: relabelled instances carry plain blocks only
    payloads = opts.get("payloads") or (PAYLOADS if get_labeling() is None else ("basic",))
    if fam == "E6" and not opts.get("payloads"):
        payloads = ("basic", "ast")       # six-block classes: bytecode ranges are covered up to five blocks and by the BC families
    G = as_named(g)
    for payload in payloads:
        snap = None
        for stage, scfg, exc in staged(g, payload, include_input=True):
            if stage == "0":
                snap = snapshot(scfg)
                continue
            if exc is not None:
                acc.counters[f"skipped_stage_raised[{stage}]"] += 1
                break
            seen = set()

            def report(clause, detail):
                if clause in seen:
                    return
                seen.add(clause)
                acc.viol(PROP, f"{PROP}/{clause}", detail, (g, stage, payload), site=stage,
                         case=graph_case(g, fam, stage, payload=payload))
            h = compare(snap, scfg, stage, report)
            if payload == "basic" and not seen:
                # "same positional order, each successor ... renamed to an inserted block": the inserted block in slot i must
                # stand for the ORIGINAL i-th successor.  Two inserted blocks that swapped places pass every literal comparison
                # above; following each slot through the inserted synthetic blocks (by-name walk, all reachable valuations)
                # tells them apart.
                r = product(G, entry_name(), h, "name", max_violations=3)
                acc.transitions += r.transitions
                for clause, detail, path in r.violations:
                    if clause.startswith("path/"):
                        report("slot-stands-for-other-successor", f"{detail} (clause {clause} of the by-name walk)")
            acc.states += len(snap)
            acc.transitions += sum(len(v[1]) for v in snap.values()) + 1
            acc.outcomes.add((stage, len(h.flat) - len(snap)))
    if len(acc.samples) < 3 and len(g) >= 5:
        acc.samples.append({"family": fam, "graph": [list(r) for r in g], "payloads": list(PAYLOADS)})


def run(tier: str, seed: int):
    spec = graph_spec(tier)
    acc = sweep(__name__, spec, {}, seed)
    cov = {"rule": "every closed CFG x payload type {plain, bytecode range, AST statement list} x stage prefix; a state is one "
                   "input block compared with its leaf in the result, a transition one successor slot compared",
           "bounds": {"E_max_blocks": spec["E"], "lists": {k: len(v) for k, v in spec["LISTS"].items()}, "fig": True},
           "instances": sum(v for k, v in acc.counters.items() if k.startswith("graphs["))}
    return {"acc": acc, "coverage": cov, "assumptions": ["that a renamed successor leads to the old one is C01's clause, not re-checked here"]}


def replay(case) -> Acc:
    acc = Acc()
    check_graph(tuple(tuple(r) for r in case["graph"]), case.get("family", "replay"), acc, {"payloads": (case.get("payload", "basic"),)})
    return acc
