"""C07 - Python source round trip is observationally equivalent or refused (DESIGN 4/C07)."""
from __future__ import annotations

from ..env import Env, compile_fn
from ..kernel import shard_map
from ..progs import (all_target_programs, arg_calls, arg_programs, boolchain_programs, chain_sources, expr_programs,
                     skeleton_sources, source_shapes)
from ..runner import Acc
from ..srcpipe import compare_functions, roundtrip
from ..sweep import rotate

PROP = "C07"


def programs(tier: str):
    out = []
    if tier == "quick":
        out += list(skeleton_sources(2, "marked"))
        out += list(skeleton_sources(2, "bare"))
        out += list(expr_programs(1, 3))
        out += list(expr_programs(2, 3))
        out += list(chain_sources(3, "marked"))
        out += list(boolchain_programs(5, 4))
    else:
        out += list(boolchain_programs(6, 5))
        out += list(chain_sources(3, "marked")) + list(chain_sources(3, "bare")) + list(chain_sources(4, "marked"))[::4]
        out += list(skeleton_sources(3, "marked", loop_else_upto=2))
        out += list(skeleton_sources(3, "bare", loop_else_upto=2))
        out += list(expr_programs(2, 4))
    out += list(all_target_programs())
    from ..progs import arm_programs
    out += list(arm_programs(tier))
    out += list(arg_programs(2))
    return out


def hash_label(label: str) -> int:
    try:
        return int(label.rsplit("/", 1)[1])
    except ValueError:
        return 0


def string_entry_points(src: str):
    import ast
    from numba_scfg.core.datastructures.ast_transforms import AST2SCFG, SCFG2AST
    from ..kernel import guarded
    try:
        scfg = guarded(AST2SCFG, src)
        guarded(scfg.restructure)
        return ("ok", ast.unparse(guarded(SCFG2AST, src, scfg)))
    except NotImplementedError as e:
        return ("refused", str(e))
    except Exception as e:  # noqa: BLE001
        return ("raised", f"{type(e).__name__}: {e}")


def diff_signature(o1, o2) -> str:
    """Coarse signature of a behavioural difference (part of the fingerprint)."""
    import collections
    c1, c2 = collections.Counter(o1[0]), collections.Counter(o2[0])
    if o1[1] == o2[1]:
        if all(c2[k] >= v for k, v in c1.items()):
            return "eager"            # same outcome, the other side makes all calls of the function plus more / reordered
        return "calls"                # same outcome, calls missing or changed
    return "outcome"                  # different result / exception / termination


def check_program(label: str, src: str, acc: Acc, horizon: int, raising: bool = False):
    p = roundtrip(src)
    acc.counters[f"pipeline[{p.status}]"] += 1
    fam = label.split("/")[0] + "/" + (label.split("/")[1] if "/" in label else "")
    acc.counters[f"programs[{fam}]"] += 1
    if p.status == "refused":
        acc.outcomes.add(("refused", p.stage))
        acc.counters[f"refused_at[{p.stage}]"] += 1
        return
    if p.status == "error":
        acc.viol(PROP, f"{PROP}/internal-error/{p.exc_type}", f"{label}: pipeline stage {p.stage} died with {p.exc_type}: {p.msg} at {p.site}",
                 (src,), site=p.site, case={"label": label, "source": src, "horizon": horizon, "raising": raising})
        acc.outcomes.add(("error", p.exc_type, p.site))
        return
    env1, env2 = Env(raising), Env(raising)
    try:
        f1 = compile_fn(src, "f", env1)
        f2 = compile_fn(p.text, "transformed_f", env2)
    except Exception as e:  # noqa: BLE001
        acc.viol(PROP, f"{PROP}/does-not-compile", f"{label}: regenerated source does not define transformed_f: {type(e).__name__}: {e}",
                 (src,), case={"label": label, "source": src, "regenerated": p.text})
        return
    # history on one graph: regenerating from the SAME restructured graph again must work too (code generation must not wear
    # out its input); a differing second text is executed instead of the first
    import ast as _ast
    from numba_scfg.core.datastructures.ast_transforms import SCFG2ASTTransformer
    from ..kernel import guarded
    try:
        text2 = _ast.unparse(guarded(SCFG2ASTTransformer().transform, original=p.orig_tree[0], scfg=p.scfg))
        compile(text2, "<regenerated twice>", "exec")
        if text2 != p.text:
            acc.counters["second_regeneration_text_differs(executed instead)"] += 1
            f2 = compile_fn(text2, "transformed_f", env2)
    except NotImplementedError:
        text2 = None
    except Exception as e:  # noqa: BLE001
        acc.viol(PROP, f"{PROP}/second-regeneration-fails", f"{label}: regenerating Python from the same restructured graph a second time "
                 f"fails with {type(e).__name__}: {str(e)[:120]}", (src,), shape=source_shapes(src),
                 case={"label": label, "source": src, "regenerated": p.text, "horizon": horizon, "raising": raising})
        return
    # history + entry points: the same text converted a second (and third) time through the public string entry points
    # AST2SCFG / SCFG2AST must regenerate exactly the text the first conversion (transformer classes, parsed tree) gave
    rebuild = label.startswith(("S0", "S1", "T/", "X")) or (label.startswith("S2/marked") and hash_label(label) % 4 == 0) \
        or horizon > 6
    for attempt in ((2, 3) if rebuild else ()):
        again = string_entry_points(src)
        acc.counters["string_entry_point_rebuilds"] += 1
        if again != ("ok", p.text):
            what = f"{again[0]}: {again[1][:160]}" if again[0] != "ok" else "different text"
            acc.viol(PROP, f"{PROP}/rebuild-differs", f"{label}: conversion #{attempt} of the same source through AST2SCFG/restructure/SCFG2AST gives "
                     f"{what}; the first conversion succeeded", (src,), shape=source_shapes(src),
                     case={"label": label, "source": src, "regenerated": p.text, "horizon": horizon, "raising": raising})
            break
    diffs = []

    def on_diff(choices, o1, o2):
        if len(diffs) < 1:
            diffs.append((choices, o1, o2))
    st = compare_functions(f1, env1, f2, env2, horizon, on_diff)
    acc.states += st.runs
    acc.transitions += st.choice_points + st.runs
    acc.traces += st.runs
    acc.counters["executions"] += st.runs
    acc.counters["horizon_cuts"] += st.horizon_cuts
    acc.outcomes |= {("run",) + (o,) for o in st.outcomes}
    if diffs:
        choices, o1, o2 = diffs[0]
        kind = diff_signature(o1, o2)
        acc.viol(PROP, f"{PROP}/behaviour-differs/{kind}",
                 f"{label}: answers {list(choices)}: original -> {o1[1]!r} after {len(o1[0])} calls; regenerated -> {o2[1]!r} after {len(o2[0])} calls",
                 (src,), shape=source_shapes(src),
                 case={"label": label, "source": src, "regenerated": p.text, "answers": list(choices),
                               "original": repr(o1), "transformed": repr(o2), "horizon": horizon, "raising": raising})
    if len(acc.samples) < 4 and "S2/marked/3" in label:
        acc.samples.append({"label": label, "source": src, "regenerated": p.text, "answer_sequences": st.runs})


def check_arg_program(label: str, src: str, params, form: int, acc: Acc):
    """Programs whose control flow is driven by their PARAMETERS: the round trip must keep the signature (positional-only,
    defaults, keyword-only, *rest, **kw) and behave the same for every argument tuple over {0,1,2} in every calling
    convention, including ill-formed calls (same TypeError)."""
    from ..env import execute
    from ..kernel import Chooser
    p = roundtrip(src)
    acc.counters[f"pipeline[{p.status}]"] += 1
    acc.counters[f"programs[{label.split('/')[0]}/args]"] += 1
    case = {"kind": "args", "label": label, "source": src, "params": list(params), "form": form}
    if p.status == "refused":
        acc.counters[f"refused_at[{p.stage}]"] += 1
        return
    if p.status == "error":
        acc.viol(PROP, f"{PROP}/internal-error/{p.exc_type}", f"{label}: pipeline stage {p.stage} died with {p.exc_type}: {p.msg} at {p.site}",
                 (src,), site=p.site, case=case)
        return
    env1, env2 = Env(False), Env(False)
    try:
        f1 = compile_fn(src, "f", env1)
        f2 = compile_fn(p.text, "transformed_f", env2)
    except Exception as e:  # noqa: BLE001
        acc.viol(PROP, f"{PROP}/does-not-compile", f"{label}: regenerated source does not define transformed_f: {type(e).__name__}: {e}",
                 (src,), case=dict(case, regenerated=p.text))
        return
    for args, kw in arg_calls(params, form):
        o1 = execute(lambda: f1(*args, **kw), env1, Chooser())
        o2 = execute(lambda: f2(*args, **kw), env2, Chooser())
        acc.states += 1
        acc.transitions += len(o1[0]) + 1
        acc.traces += 1
        acc.counters["argument_tuples"] += 1
        acc.outcomes.add(("args", o1[1][0]))
        if o1 != o2:
            kind = diff_signature(o1, o2)
            acc.viol(PROP, f"{PROP}/behaviour-differs/{kind}",
                     f"{label}: call f(*{args!r}, **{kw!r}): original -> {o1[1]!r} after {len(o1[0])} calls; regenerated -> {o2[1]!r} after {len(o2[0])} calls",
                     (src,), shape="args," + source_shapes(src) if source_shapes(src) else "args",
                     case=dict(case, regenerated=p.text, args=list(args), kwargs=kw))
            break


def _work(args):
    chunk, horizon = args
    acc = Acc()
    for item in chunk:
        if len(item) == 4:
            check_arg_program(item[0], item[1], item[2], item[3], acc)
            continue
        label, src = item
        check_program(label, src, acc, horizon, raising=label.startswith("T/") or (label.startswith("X") and not label.startswith("XC")))
    return acc


def run(tier: str, seed: int):
    horizon = 6 if tier == "quick" else 8
    progs = rotate(programs(tier), seed)
    size = 100
    chunks = [(progs[i:i + size], horizon) for i in range(0, len(progs), size)]
    acc = Acc()
    for r in shard_map(_work, chunks):
        acc.merge(r)
    cov = {"rule": "every program of S(c) in marked and bare mode, X(d) in every carrier and the targeted shapes goes through "
                   "AST2SCFG -> restructure -> SCFG2AST -> unparse -> compile; accepted programs are executed under a stateless explorer "
                   "over ALL oracle answer sequences (tests true/false[/raise], iterables of length 0-2) up to the horizon; a state is one "
                   "complete execution, a transition one oracle answer; traces = executions of the regenerated code compared with the original; "
                   "plus the A(c) family: the same skeletons with control flow driven by the function's parameters, four signature forms "
                   "(positional, default, keyword-only, positional-only + *rest + **kw), called with EVERY argument tuple over {0,1,2} in "
                   "every calling convention and with ill-formed calls",
           "bounds": {"horizon_answers": horizon, "programs": len(progs)},
           "programs": len(progs)}
    return {"acc": acc, "coverage": cov, "assumptions": [
        "control can depend on data only through the oracle calls t/v/it/c; truthiness calls (__bool__) are not counted as external calls",
        "runs cut by the horizon must agree up to the cut"]}


def replay(case) -> Acc:
    acc = Acc()
    if case.get("kind") == "args":
        check_arg_program(case.get("label", "replay"), case["source"], case["params"], case["form"], acc)
        return acc
    check_program(case.get("label", "replay"), case["source"], acc, case.get("horizon", 6), case.get("raising", False))
    return acc
