"""C16 - iteration and the region-concealing view enumerate exactly the graph (DESIGN 4/C16)."""
from __future__ import annotations

import collections

from numba_scfg.core.datastructures.basic_block import RegionBlock

from ..hier import Hier
from ..runner import Acc
from ..sweep import exc_fingerprint, graph_case, graph_spec, staged, sweep

PROP = "C16"


def _alternate(a, b, pairs=True):
    """Advance two live iterators in strict alternation until both are exhausted; return what each yielded."""
    out = ([], [])
    live = [a, b]
    while any(x is not None for x in live):
        for i in (0, 1):
            if live[i] is None:
                continue
            try:
                v = next(live[i])
            except StopIteration:
                live[i] = None
                continue
            out[i].append(v[0] if pairs else v)
    return out


def check_views(scfg, report):
    hier = Hier(scfg)
    # whole-hierarchy iteration
    try:
        items = [n for n, _ in scfg]
    except Exception as e:  # noqa: BLE001
        et, site = exc_fingerprint(e)
        report("iter/raises", f"iterating the graph raised {et} at {site}")
        items = None
    if items is not None:
        cnt = collections.Counter(items)
        want = set(hier.flat)
        if set(cnt) != want:
            report("iter/not-exact", f"iteration misses {sorted(want - set(cnt))} and adds {sorted(set(cnt) - want)}")
        dup = sorted(k for k, v in cnt.items() if v > 1)
        if dup:
            report("iter/duplicates", f"iteration yields {dup} more than once")
        try:
            head = scfg.find_head()
            if items and items[0] != head:
                report("iter/head-first", f"iteration starts with {items[0]!r}, the head is {head!r}")
        except AssertionError:
            pass
        for n, b in scfg:
            if hier.flat.get(n) is None or hier.flat[n].block is not b:
                report("iter/wrong-block", f"iteration pairs {n!r} with a block that is not the one stored under that name")
                break
    if items is not None:
        # history: two iterators alive at once, advanced alternately, and a second traversal, yield what one traversal yields
        try:
            a, b = iter(scfg), iter(scfg)
            got_a, got_b = _alternate(a, b)
            again = [n for n, _ in scfg]
            if got_a != items or got_b != items or again != items:
                report("iter/interleaved", f"one traversal yields {items}; two iterators advanced alternately yield {got_a} and {got_b}; "
                                           f"a further traversal yields {again}")
        except Exception as e:  # noqa: BLE001
            et, site = exc_fingerprint(e)
            report("iter/interleaved-raises", f"two iterators advanced alternately raised {et} at {site}")
    # concealed view of every (sub)graph
    for level, region, depth in hier.levels:
        where = region.name if region else "<top>"
        try:
            view = list(level.concealed_region_view)
        except Exception as e:  # noqa: BLE001
            et, site = exc_fingerprint(e)
            report("view/raises", f"concealed view of {where} raised {et} at {site}")
            continue
        try:
            vobj = level.concealed_region_view
            got_a, got_b = _alternate(iter(vobj), iter(level.concealed_region_view), pairs=False)
            again = list(vobj)
            if got_a != view or got_b != view or again != view:
                report("view/interleaved", f"one traversal of the view of {where} yields {view}; two iterators advanced alternately yield "
                                           f"{got_a} and {got_b}; a further traversal yields {again}")
        except Exception as e:  # noqa: BLE001
            et, site = exc_fingerprint(e)
            report("view/interleaved-raises", f"two view iterators of {where} advanced alternately raised {et} at {site}")
        cnt = collections.Counter(view)
        keys = set(level.graph)
        if set(cnt) != keys:
            report("view/not-exact", f"view of {where} misses {sorted(keys - set(cnt))} and adds {sorted(set(cnt) - keys)}")
        if any(v > 1 for v in cnt.values()):
            report("view/duplicates", f"view of {where} yields {sorted(k for k, v in cnt.items() if v > 1)} more than once")
        if region is not None and view and view[0] != region.header:
            report("view/head-first", f"view of {where} starts with {view[0]!r}, the header is {region.header!r}")
        if region is None and view:
            try:
                if view[0] != level.find_head():
                    report("view/head-first", f"view of <top> starts with {view[0]!r}")
            except AssertionError:
                pass
        before = set()
        for i, k in enumerate(view):
            if i > 0 and k in keys:
                preds = [p for p in before if p in level.graph and k in level.graph[p].jump_targets]
                if not preds:
                    report("view/order", f"in the view of {where}, {k!r} appears before any of its predecessors")
            before.add(k)
        mapping = dict(level.concealed_region_view.items())
        for k, b in mapping.items():
            if k in level.graph and level.graph[k] is not b:
                report("view/wrong-block", f"view of {where} maps {k!r} to a different block")
                break
        if len(level.concealed_region_view) != len(level.graph):
            report("view/len", f"len(view) of {where} is {len(level.concealed_region_view)}, graph has {len(level.graph)}")
    return hier


def check_graph(g, fam, acc: Acc, opts):
    payload = opts.get("payload", "basic")
    held = []          # (graph object, view object obtained and traversed at an earlier stage, where, stage)
    for stage, scfg, exc in staged(g, payload, include_input=True):
        if exc is not None:
            acc.counters[f"skipped_stage_raised[{stage}]"] += 1
            return
        seen = set()

        def report(clause, detail):
            if clause in seen:
                return
            seen.add(clause)
            acc.viol(PROP, f"{PROP}/{clause}", detail, (g, stage), site=stage, case=graph_case(g, fam, stage, payload=payload))
        # history: a view OBJECT taken (and traversed) before this stage is still the view of its graph after the stage
        live = {id(level): level for level, _, _ in Hier(scfg).levels}
        for level, view, where, since in held:
            if id(level) not in live:
                continue
            try:
                old, new = list(view), list(level.concealed_region_view)
            except Exception as e:  # noqa: BLE001
                report("view/held-raises", f"a view of {where} taken at stage {since} raised {type(e).__name__} when traversed after stage {stage}")
                continue
            acc.counters["held_views_retraversed"] += 1
            if old != new:
                report("view/held-stale", f"a view object of {where} taken and traversed at stage {since} yields {old} after stage {stage}; "
                                          f"a fresh view of the same graph yields {new}")
        h = check_views(scfg, report)
        held = []
        for level, region, depth in h.levels:
            try:
                v = level.concealed_region_view
                list(v)
                held.append((level, v, region.name if region else "<top>", stage))
            except Exception:  # noqa: BLE001  (reported by check_views)
                pass
        acc.states += len(h.levels)
        acc.transitions += len(h.flat)
        acc.outcomes.add((stage, len(h.levels), len(h.flat)))
    if len(acc.samples) < 3 and len(g) >= 5:
        acc.samples.append({"family": fam, "graph": [list(r) for r in g], "stages": ["0", "J", "JL", "JLB"]})


def run(tier: str, seed: int):
    spec = graph_spec(tier)
    acc = sweep(__name__, spec, {}, seed)
    cov = {"rule": "every closed CFG x {input, J, JL, JLB}; a state is one (sub)graph whose concealed view is enumerated, a transition "
                   "one item yielded by SCFG.__iter__ ; oracle: exact permutation, head first, predecessor-before-successor",
           "bounds": {"E_max_blocks": spec["E"], "lists": {k: len(v) for k, v in spec["LISTS"].items()}, "fig": True},
           "instances": sum(v for k, v in acc.counters.items() if k.startswith("graphs["))}
    return {"acc": acc, "coverage": cov, "assumptions": ["a region's successors in the view are its own forward jump targets"]}


def replay(case) -> Acc:
    acc = Acc()
    check_graph(tuple(tuple(r) for r in case["graph"]), case.get("family", "replay"), acc, {"payload": case.get("payload", "basic")})
    return acc
