"""C03 - the restructured graph is structured (DESIGN 4/C03): the definition, checked as such."""
from __future__ import annotations

from numba_scfg.core.datastructures.basic_block import RegionBlock

from ..families import as_named
from ..hier import Hier
from ..runner import Acc
from ..sweep import graph_case, graph_spec, staged, sweep

PROP = "C03"


def sccs_ref(G):
    """Non-trivial SCCs and self loops of the input graph by mutual reachability."""
    names = list(G)
    reach = {a: set(G[a]) for a in names}
    changed = True
    while changed:
        changed = False
        for a in names:
            new = set(reach[a])
            for b in list(reach[a]):
                new |= reach[b]
            if new != reach[a]:
                reach[a] = new
                changed = True
    out, seen = [], set()
    for a in names:
        if a in seen:
            continue
        comp = {b for b in names if b == a or (b in reach[a] and a in reach[b])}
        seen |= comp
        if len(comp) > 1 or a in reach[a]:
            out.append(comp)
    return out


def check_structure(G, scfg, report):
    hier = Hier(scfg)
    for clause, detail in hier.problems:
        report(clause, detail)
    # (a) acyclic per level once declared back edges are ignored
    for level, region, depth in hier.levels:
        keys = set(level.graph)
        indeg = {k: 0 for k in keys}
        for k, b in level.graph.items():
            for t in b.jump_targets:
                if t in keys:
                    indeg[t] += 1
        todo = [k for k, d in indeg.items() if d == 0]
        n = 0
        while todo:
            k = todo.pop()
            n += 1
            for t in level.graph[k].jump_targets:
                if t in keys:
                    indeg[t] -= 1
                    if indeg[t] == 0:
                        todo.append(t)
        if n != len(keys):
            report("acyclic", f"level {region.name if region else '<top>'} has a cycle not covered by declared back edges: "
                              f"{sorted(k for k, d in indeg.items() if d > 0)}")
    # (b) back edges and loop regions
    regions = hier.regions()
    loops = {n: r for n, r in regions.items() if r.kind == "loop"}
    latch_count = {n: 0 for n in loops}
    for name, b in hier.leaves().items():
        for t in b.backedges:
            encl = hier.enclosing(name)
            L = next((r for r in encl if r.kind == "loop"), None)
            if L is None:
                report("backedge/no-loop-region", f"block {name!r} declares back edge to {t!r} but lies in no loop region")
                continue
            latch_count[L.name] = latch_count.get(L.name, 0) + 1
            if t != L.header:
                report("backedge/not-header", f"back edge {name!r}->{t!r}: innermost loop region {L.name!r} has header {L.header!r}")
            if t not in b._jump_targets:
                report("backedge/not-a-target", f"back edge {name!r}->{t!r} is not among the block's jump targets {b._jump_targets!r}")
            if hier.resolve_exiting(L.name) != name:
                report("backedge/not-exiting-latch", f"back edge of loop region {L.name!r} comes from {name!r}, "
                                                     f"but the region's exiting chain ends at {hier.resolve_exiting(L.name)!r}")
    for n, r in regions.items():
        if r.backedges:
            report("backedge/on-region", f"region {n!r} itself declares back edges {r.backedges!r}")
    for n, c in latch_count.items():
        if c != 1:
            report("loop/latch-count", f"loop region {n!r} contains {c} back edges of its own (outside nested loops); expected exactly one")
    leafsets = {n: hier.leaves_of(r) for n, r in loops.items()}
    for comp in sccs_ref(G):
        if not any(comp <= ls for ls in leafsets.values()):
            report("loop/cycle-not-in-loop-region", f"input cycle {sorted(comp)} is not contained in any loop region")
    # (c') "each with exactly one continuation": judged where control really goes - the forward targets by which the blocks INSIDE a
    # branch arm leave it - not only by what the arm's region block declares
    for n, r in regions.items():
        if r.kind != "branch":
            continue
        inside, stack = set(), [r]
        while stack:
            x = stack.pop()
            if x.subregion is None:
                continue
            for k, bk in x.subregion.graph.items():
                inside.add(k)
                if isinstance(bk, RegionBlock):
                    stack.append(bk)
        outs = set()
        for leaf in hier.leaves_of(r):
            b = hier.flat[leaf].block
            for t in b.jump_targets:
                if t not in inside and t != n:
                    outs.add(t)
        if len(outs) > 1 or (outs and set(outs) != set(r.jump_targets)):
            report("branch/arm-leaves-elsewhere", f"blocks inside branch region {n!r} leave it towards {sorted(outs)}; the region declares "
                                                  f"the continuation {tuple(r.jump_targets)!r}")
    # (c) branch structure per level
    for level, region, depth in hier.levels:
        for k, b in level.graph.items():
            succ = b.jump_targets
            if len(succ) <= 1:
                continue
            if isinstance(b, RegionBlock):
                if b.kind != "head":
                    report("branch/multi-successor-region-not-head", f"region {k!r} of kind {b.kind!r} has successors {succ!r}")
                    continue
                if len(set(succ)) != len(succ):
                    report("branch/duplicate-arms", f"head region {k!r} has duplicate successors {succ!r}")
                tails = set()
                for s in succ:
                    sb = level.graph.get(s)
                    if not isinstance(sb, RegionBlock) or sb.kind != "branch":
                        report("branch/arm-not-branch-region", f"successor {s!r} of head region {k!r} is "
                                                               f"{type(sb).__name__ if sb is not None else 'missing'} kind={getattr(sb, 'kind', None)!r}")
                        continue
                    if len(sb.jump_targets) != 1:
                        report("branch/arm-continuations", f"branch region {s!r} has continuations {sb.jump_targets!r}")
                        continue
                    tails.add(sb.jump_targets[0])
                if len(tails) > 1:
                    report("branch/no-common-tail", f"arms of head region {k!r} continue to different blocks {sorted(tails)}")
                for t in tails:
                    tb = level.graph.get(t)
                    if not isinstance(tb, RegionBlock) or tb.kind != "tail":
                        report("branch/tail-not-tail-region", f"common continuation {t!r} of head region {k!r} is "
                                                              f"{type(tb).__name__ if tb is not None else 'missing'} kind={getattr(tb, 'kind', None)!r}")
            else:
                if region is None or region.kind != "head" or region.exiting != k:
                    report("branch/branching-block-not-head-exiting",
                           f"block {k!r} has successors {succ!r} but is not the exiting block of a head region "
                           f"(it lies in {region.name if region else '<top>'} kind={region.kind if region else None} exiting={region.exiting if region else None})")


def check_graph(g, fam, acc: Acc, opts):
    G = as_named(g)
    payload = opts.get("payload", "basic")
    last = None
    for stage, scfg, exc in staged(g, payload):
        if exc is not None:
            acc.counters[f"skipped_stage_raised[{stage}]"] += 1
            return
        last = (stage, scfg)
    stage, scfg = last
    seen = set()

    def report(clause, detail):
        if clause in seen:
            return
        seen.add(clause)
        acc.viol(PROP, f"{PROP}/{clause}", detail, (g, stage), case=graph_case(g, fam, stage, payload=payload))
    check_structure(G, scfg, report)
    h = Hier(scfg)
    acc.states += len(h.levels)
    acc.transitions += sum(len(b._jump_targets) + len(b.backedges) for e in h.flat.values() for b in [e.block])
    acc.outcomes.add((len(h.levels), len(h.flat)))
    if len(acc.samples) < 3 and len(g) >= 5:
        acc.samples.append({"family": fam, "graph": [list(r) for r in g], "levels": len(h.levels), "blocks_and_regions": len(h.flat)})


def run(tier: str, seed: int):
    spec = graph_spec(tier)
    acc = sweep(__name__, spec, {}, seed)
    cov = {"rule": "every closed CFG of the listed families after join_returns+restructure_loop+restructure_branch; a state is one "
                   "level (graph of a region) of the resulting hierarchy, a transition one jump target or back edge examined; "
                   "oracle: per-level acyclicity, back-edge/loop-region clauses, head/branch/tail clauses",
           "bounds": {"E_max_blocks": spec["E"], "lists": {k: len(v) for k, v in spec["LISTS"].items()}, "fig": True},
           "instances": sum(v for k, v in acc.counters.items() if k.startswith("graphs["))}
    return {"acc": acc, "coverage": cov, "assumptions": ["instances on which a stage raises are skipped (C02)"]}


def replay(case) -> Acc:
    acc = Acc()
    check_graph(tuple(tuple(r) for r in case["graph"]), case.get("family", "replay"), acc, {"payload": case.get("payload", "basic")})
    return acc
