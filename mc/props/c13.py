"""C13 - graph queries return exactly what their definitions prescribe (DESIGN 4/C13)."""
from __future__ import annotations

import itertools

from ..families import enum_closed, make_scfg
from ..hier import Hier
from ..kernel import shard_map
from ..runner import Acc
from ..sweep import exc_fingerprint, rotate

PROP = "C13"
EXT = "X"


# ---------------------------------------------------------------------------------------
# boring reference implementations over an adjacency dict name -> tuple of target names

def closure(G):
    """reach[a] = nodes (incl. external names) reachable from a by a path of >= 1 edge."""
    reach = {a: set(G[a]) for a in G}
    changed = True
    while changed:
        changed = False
        for a in G:
            new = set(reach[a])
            for b in list(reach[a]):
                if b in G:
                    new |= reach[b]
            if new != reach[a]:
                reach[a] = new
                changed = True
    return reach


def ref_sccs(G, reach):
    out, seen = set(), set()
    for a in G:
        if a in seen:
            continue
        comp = frozenset(b for b in G if b == a or (b in reach[a] and a in reach[b]))
        seen |= comp
        out.add(comp)
    return out


def ref_doms(G, entries, succ):
    """dominators by definition: a dom b iff b unreachable from entries once a is removed, or a == b."""
    nodes = list(G)
    doms = {b: {b} for b in nodes}
    for a in nodes:
        seen = set()
        todo = [e for e in entries if e != a]
        while todo:
            x = todo.pop()
            if x in seen:
                continue
            seen.add(x)
            for y in succ[x]:
                if y != a and y not in seen:
                    todo.append(y)
        for b in nodes:
            if b != a and b not in seen:
                doms[b].add(a)
    return doms


def ref_idoms(doms, reachable):
    out = {}
    for b, ds in doms.items():
        if b not in reachable:
            continue
        strict = ds - {b}
        cands = [d for d in strict if all(o in doms[d] for o in strict)]
        if len(cands) == 1:
            out[b] = cands[0]
    return out


def reach_from(entries, succ):
    seen, todo = set(), list(entries)
    while todo:
        x = todo.pop()
        if x in seen:
            continue
        seen.add(x)
        todo.extend(succ[x])
    return seen


# ---------------------------------------------------------------------------------------

def build(G):
    from numba_scfg.core.datastructures.basic_block import BasicBlock
    from numba_scfg.core.datastructures.scfg import SCFG
    return SCFG(graph={n: BasicBlock(name=n, _jump_targets=tuple(t)) for n, t in G.items()})


def check_queries(G, scfg, acc: Acc, label, subsets=True, is_level=False, egraph=None, history=None):
    """G: adjacency over forward jump targets; scfg: the library graph with the same arcs."""
    from numba_scfg.core import transformations as T
    seen = set()

    def report(clause, detail):
        if clause in seen:
            return
        seen.add(clause)
        if history is not None:
            # the graph object answered queries before it was edited: answers must describe the graph as it is NOW
            clause = "after-edit/" + clause
            acc.viol(PROP, f"{PROP}/{clause}", f"{label}: after {history['edit']} on a graph that had already been queried: {detail}",
                     (tuple(sorted(history["before"].items())), tuple(history["edit"])),
                     case={"graph": {k: list(v) for k, v in history["before"].items()}, "label": label, "edit": list(history["edit"])})
            return
        acc.viol(PROP, f"{PROP}/{clause}", f"{label}: {detail}", (tuple(sorted(G.items())),),
                 case={"graph": {k: list(v) for k, v in G.items()}, "label": label,
                       "egraph": [list(r) for r in egraph] if egraph is not None else None})
    reach = closure(G)
    nodes = list(G)
    # 1. strongly connected components
    try:
        got = scfg.compute_scc()
        gs = set(frozenset(c) for c in got)
        if gs != ref_sccs(G, reach) or sum(len(c) for c in got) != len(nodes):
            report("scc", f"compute_scc -> {sorted(map(sorted, got))}, by mutual reachability {sorted(map(sorted, ref_sccs(G, reach)))}")
    except Exception as e:  # noqa: BLE001
        report(f"scc-raises/{type(e).__name__}", f"compute_scc raised {type(e).__name__}: {e}")
    acc.transitions += 1
    # 2. reachability
    for a in nodes:
        for b in nodes + [EXT]:
            try:
                r = scfg.is_reachable_dfs(a, b)
            except Exception as e:  # noqa: BLE001
                report(f"reachable-raises/{type(e).__name__}", f"is_reachable_dfs({a},{b}) raised {type(e).__name__}")
                continue
            if r != (b in reach[a]):
                report("reachable", f"is_reachable_dfs({a!r},{b!r}) -> {r}, a path of >= 1 edge {'exists' if b in reach[a] else 'does not exist'}")
            acc.transitions += 1
    # 3. head
    targeted = {t for ts in G.values() for t in ts}
    heads = [n for n in nodes if n not in targeted]
    try:
        h = scfg.find_head()
        if len(heads) != 1:
            report("head-ambiguous-answered", f"find_head -> {h!r} although {len(heads)} blocks have no predecessor")
        elif h != heads[0]:
            report("head", f"find_head -> {h!r}, the block without predecessors is {heads[0]!r}")
    except AssertionError:
        if len(heads) == 1:
            report("head-raises", f"find_head raised although {heads[0]!r} is the unique block without predecessors")
        else:
            acc.counters["head_outside_definition"] += 1
    acc.transitions += 1
    # 4./5. subset queries
    if subsets:
        for k in range(1, len(nodes) + 1):
            for sub in itertools.combinations(nodes, k):
                S = set(sub)
                want_h = sorted({t for o in nodes if o not in S for t in G[o] if t in S})
                want_e = sorted({o for o in nodes if o not in S and any(t in S for t in G[o])})
                try:
                    gh, ge = scfg.find_headers_and_entries(set(S))
                    if want_h:
                        if sorted(gh) != want_h or sorted(ge) != want_e:
                            report("headers-entries", f"subset {sorted(S)}: got headers {gh} entries {ge}, definition gives {want_h} / {want_e}")
                    else:
                        if len(heads) == 1 and heads[0] in S:
                            # inside a region the documented fallback takes the entries from the parent graph
                            if list(gh) != [heads[0]] or (list(ge) != [] and not is_level):
                                report("headers-entries-fallback", f"subset {sorted(S)} without entering arc: got {gh} / {ge}, documented fallback is head {heads[0]!r} / []")
                        else:
                            acc.counters["headers_outside_definition"] += 1
                except AssertionError:
                    if want_h or (len(heads) == 1 and heads[0] in S):
                        report("headers-entries-raises", f"subset {sorted(S)}: raised AssertionError")
                    else:
                        acc.counters["headers_outside_definition"] += 1
                except Exception as e:  # noqa: BLE001
                    report(f"headers-entries-raises/{type(e).__name__}", f"subset {sorted(S)}: raised {type(e).__name__}: {e}")
                want_x = sorted({i for i in S if any(t not in S for t in G[i]) or not G[i]})
                want_o = sorted({t for i in S for t in G[i] if t not in S})
                try:
                    gx, go = scfg.find_exiting_and_exits(set(S))
                    if sorted(gx) != want_x or sorted(go) != want_o:
                        report("exiting-exits", f"subset {sorted(S)}: got exiting {gx} exits {go}, definition gives {want_x} / {want_o}")
                    if list(gx) != sorted(gx) or list(go) != sorted(go):
                        report("exiting-exits-order", f"subset {sorted(S)}: results not in sorted order: {gx} / {go}")
                except Exception as e:  # noqa: BLE001
                    report(f"exiting-exits-raises/{type(e).__name__}", f"subset {sorted(S)}: raised {type(e).__name__}: {e}")
                acc.transitions += 2
    # 6. dominance
    succ = {a: [t for t in G[a] if t in G] for a in nodes}
    pred = {a: [] for a in nodes}
    for a in nodes:
        for t in succ[a]:
            pred[t].append(a)
    for tag, fn, ents, fw in (("dom", T._doms, [n for n in nodes if not pred[n]], succ),
                              ("postdom", T._post_doms, [n for n in nodes if not succ[n]], pred)):
        acc.transitions += 1
        try:
            got = fn(scfg)
        except RuntimeError:
            if ents:
                report(f"{tag}-raises", f"{tag} raised RuntimeError although entry points {ents} exist")
            else:
                acc.counters[f"{tag}_no_entry_outside_definition"] += 1
            continue
        except Exception as e:  # noqa: BLE001
            et, site = exc_fingerprint(e)
            report(f"{tag}-raises/{et}", f"{tag} raised {et} at {site}")
            continue
        if not ents:
            report(f"{tag}-no-entry-answered", f"{tag} returned a relation although there is no entry point")
            continue
        want = ref_doms(G, ents, fw)
        if {k: set(v) for k, v in got.items()} != want:
            bad = [k for k in nodes if set(got.get(k, ())) != want[k]]
            report(tag, f"{tag}[{bad[0]!r}] = {sorted(got.get(bad[0], ()))}, by the path definition {sorted(want[bad[0]])}")
            continue
        reachable = reach_from(ents, fw)
        if reachable != set(nodes):
            acc.counters[f"{tag}_idom_skipped_unreachable_nodes"] += 1
            continue
        try:
            gi = T._imm_doms({k: set(v) for k, v in got.items()})
        except Exception as e:  # noqa: BLE001
            report(f"imm-{tag}-raises/{type(e).__name__}", f"_imm_doms raised {type(e).__name__}: {e}")
            continue
        wi = ref_idoms(want, reachable)
        if gi != wi:
            report(f"imm-{tag}", f"immediate {tag}s {gi}, by definition {wi}")
    acc.states += 1


def edits(G):
    """Single edits of a graph through the public mutators."""
    names = list(G)
    for x in names:
        yield ("remove_blocks", x)
    for a in names:
        yield ("add_block", "n", (a,))
    alts = [()] + [(t,) for t in names] + [(names[0], names[-1])]
    for a in names:
        for new in alts:
            if tuple(G[a]) != new:
                yield ("replace_via_add_block", a, new)
                yield ("assign_graph_item", a, new)


def apply_edit(scfg, G, edit):
    """Apply to the library object and to the adjacency; returns the new adjacency."""
    from numba_scfg.core.datastructures.basic_block import BasicBlock
    G = dict(G)
    if edit[0] == "remove_blocks":
        scfg.remove_blocks({edit[1]})
        del G[edit[1]]
    elif edit[0] == "add_block":
        scfg.add_block(BasicBlock(name=edit[1], _jump_targets=tuple(edit[2])))
        G[edit[1]] = tuple(edit[2])
    elif edit[0] == "replace_via_add_block":
        scfg.add_block(scfg.graph.pop(edit[1]).replace_jump_targets(jump_targets=tuple(edit[2])))
        G[edit[1]] = tuple(edit[2])
    else:
        scfg.graph[edit[1]] = BasicBlock(name=edit[1], _jump_targets=tuple(edit[2]))
        G[edit[1]] = tuple(edit[2])
    # the object's dict order may differ from G's: follow the object
    return {k: G[k] for k in scfg.graph}


def edit_histories(G0, acc: Acc, label):
    """query everything; edit once; query everything again on the SAME object."""
    for edit in edits(G0):
        scfg = build(G0)
        scratch = Acc()
        check_queries(G0, scfg, scratch, label)          # warms whatever the object may remember; verdicts are the other leg's
        try:
            G1 = apply_edit(scfg, G0, edit)
        except Exception as e:  # noqa: BLE001
            acc.counters[f"edit_raised[{edit[0]}:{type(e).__name__}]"] += 1
            continue
        acc.counters["edit_histories"] += 1
        check_queries(G1, scfg, acc, label, history={"before": G0, "edit": edit})


def target_lists(names, maxlen):
    out = [()]
    for k in range(1, maxlen + 1):
        out += list(itertools.product(names, repeat=k))
    return out


def _work(args):
    kind, a, b, c = args
    acc = Acc()
    if kind == "digraphs":
        names, maxlen, first_rows = a, b, c
        alph = target_lists(list(names) + [EXT], maxlen)
        for r0 in first_rows:
            for rest in itertools.product(alph, repeat=len(names) - 1):
                G = dict(zip(names, (r0,) + rest))
                check_queries(G, build(G), acc, f"digraph{len(names)}/{maxlen}")
                if len(acc.samples) < 2 and len(G[names[0]]) == maxlen:
                    acc.samples.append({"graph": {k: list(v) for k, v in G.items()}})
    elif kind == "edits":
        names, maxlen, first_rows = a, b, c
        alph = target_lists(list(names), maxlen)
        for r0 in first_rows:
            for rest in itertools.product(alph, repeat=len(names) - 1):
                G = dict(zip(names, (r0,) + rest))
                edit_histories(G, acc, f"edited-digraph{len(names)}/{maxlen}")
    else:
        n, prefix = a, b
        for g in enum_closed(n, prefix):
            scfg = make_scfg(g)
            try:
                scfg.restructure()
            except Exception:  # noqa: BLE001
                continue
            for level, region, depth in Hier(scfg).levels:
                G = {k: tuple(bk.jump_targets) for k, bk in level.graph.items()}
                if len(G) <= 7:
                    acc.counters["level_graphs"] += 1
                    check_queries(G, level, acc, f"level-of-E{n}", subsets=len(G) <= 5, is_level=True, egraph=g)
    return acc


def run(tier: str, seed: int):
    from ..families import shards
    units = []
    n3 = ("a", "b", "c")
    n4 = ("a", "b", "c", "d")
    if tier == "quick":
        specs = [(n3, 2), (("a", "b"), 3), (n4, 1), (("a", "b", "c", "d", "e"), 1)]
        emax = 4
    else:
        specs = [(n3, 3), (n4, 2), (("a", "b"), 3), (("a", "b", "c", "d", "e"), 1)]
        emax = 5
    sizes = {}
    for names, maxlen in specs:
        alph = target_lists(list(names) + [EXT], maxlen)
        sizes[f"n={len(names)},len<={maxlen}"] = len(alph) ** len(names)
        chunk = max(1, len(alph) // 64) if len(alph) ** len(names) > 100000 else len(alph)
        for i in range(0, len(alph), chunk):
            units.append(("digraphs", names, maxlen, alph[i:i + chunk]))
    for n in range(1, emax + 1):
        for nn, prefix in shards(n, 2):
            units.append(("levels", nn, prefix, None))
    # histories: query, one edit through a public mutator, query again on the same object (all digraphs on 3 names, lists <= 2)
    for names, maxlen in ((n3, 2),) if tier == "quick" else ((n3, 2), (n4, 1)):
        alph = target_lists(list(names), maxlen)
        for r0 in alph:
            units.append(("edits", names, maxlen, [r0]))
    acc = Acc()
    for r in shard_map(_work, rotate(units, seed)):
        acc.merge(r)
    cov = {"rule": "ALL directed graphs on the given node names with ordered target lists up to the length bound (duplicates, self loops, one "
                   "external name) and all level graphs of the restructured hierarchies of E(n): compute_scc, is_reachable_dfs (all pairs), "
                   "find_head, find_headers_and_entries / find_exiting_and_exits (all non-empty subsets), _doms/_post_doms/_imm_doms compared "
                   "with definition-level reference implementations; a state is one graph, a transition one query compared; plus histories "
                   "query-all / one edit through a public mutator (remove_blocks, add_block, replace via pop+add_block, item assignment) / "
                   "query-all on the same object, for every digraph on three names",
           "bounds": {"digraph_spaces": sizes, "level_graphs_of_E_up_to": emax}, "exhaustive": True}
    return {"acc": acc, "coverage": cov, "assumptions": [
        "graphs with zero or several heads / no dominator entry are outside the definition: raising is accepted, answering is not",
        "immediate dominators are compared only where every node is reachable from the entries"]}


def replay(case) -> Acc:
    acc = Acc()
    if case.get("egraph"):
        g = tuple(tuple(r) for r in case["egraph"])
        scfg = make_scfg(g)
        scfg.restructure()
        for level, region, depth in Hier(scfg).levels:
            G = {k: tuple(bk.jump_targets) for k, bk in level.graph.items()}
            check_queries(G, level, acc, case.get("label", "replay"), subsets=len(G) <= 5, is_level=True, egraph=g)
        return acc
    G = {k: tuple(v) for k, v in case["graph"].items()}
    if case.get("edit"):
        edit = tuple(tuple(x) if isinstance(x, list) else x for x in case["edit"])
        scfg = build(G)
        check_queries(G, scfg, Acc(), "warm")
        G1 = apply_edit(scfg, G, edit)
        check_queries(G1, scfg, acc, case.get("label", "replay"), history={"before": G, "edit": edit})
        return acc
    check_queries(G, build(G), acc, case.get("label", "replay"))
    return acc
