"""C12 - results are deterministic across processes and hash seeds (DESIGN 4/C12).

K-DFS over set-iteration orders (every set of the library is a VSet whose order the explorer picks),
plus a binding leg that runs the un-instrumented library under real PYTHONHASHSEED values.
"""
from __future__ import annotations

import hashlib
import json
import os
import subprocess
import sys

from .. import VERIF, setorder

if os.environ.get("MC_C12_LEG") != "1":
    setorder.install()           # must precede any import of numba_scfg

from ..families import enum_closed, labelings, make_scfg, set_labeling, shards, deviation_closure  # noqa: E402
from ..kernel import Chooser, dfs_answers, guarded, shard_map  # noqa: E402
from ..progs import skeleton_sources  # noqa: E402
from ..runner import Acc  # noqa: E402
from ..sweep import exc_fingerprint, graph_case, rotate, unit_graphs, units_for  # noqa: E402

PROP = "C12"
D2_LIMIT = 130     # d=1 runs per instance up to which all pairs of deviations are explored too


def dump_graph(g):
    from ..canon import cdump
    scfg = make_scfg(g)
    try:
        guarded(scfg.restructure)
    except Exception as e:  # noqa: BLE001
        return ("raised", type(e).__name__, exc_fingerprint(e)[1])
    return ("ok", cdump(scfg), tuple(scfg.name_gen.kinds.items()))


def dump_source(src):
    import ast
    from numba_scfg.core.datastructures.ast_transforms import AST2SCFG, SCFG2AST
    from ..canon import cdump
    try:
        scfg = guarded(AST2SCFG, src)
        d0 = cdump(scfg)
        guarded(scfg.restructure)
        text = ast.unparse(guarded(SCFG2AST, src, scfg))
    except Exception as e:  # noqa: BLE001
        return ("raised", type(e).__name__, exc_fingerprint(e)[1])
    return ("ok", d0, cdump(scfg), text)


def dump_bytecode(src):
    from numba_scfg.core.datastructures.byte_flow import ByteFlow
    from ..canon import cdump
    ns = {}
    exec(compile(src, "<c12>", "exec"), ns)
    try:
        flow = ByteFlow.from_bytecode(ns["f"])
        d0 = cdump(flow.scfg)
        guarded(flow.scfg.restructure)
    except Exception as e:  # noqa: BLE001
        return ("raised", type(e).__name__, exc_fingerprint(e)[1])
    return ("ok", d0, cdump(flow.scfg))


def c12_lx():
    """A fixed slice of the multi-entry multi-exit loop family: loops with several headers entered from several blocks."""
    from ..families import loop_exit_family
    fam = loop_exit_family(3, 3)
    # loops with three headers entered from two different blocks (entry -> (h0, q), q -> (h1, h2)): every 12th of them
    multi = [g for g in fam if len(g[0]) == 2 and any(len(g[t]) == 2 and 0 < t < 3 for t in g[0]) and len(g) >= 8]
    return multi[::30][:12]


def c12_labelings(g):
    """Relabellings explored in addition to the BFS naming: names that interleave sibling loops / arms (evens-then-odds) and names
    that tie under numeric / case-folded keys.  Small classes get all three; larger front-end graphs alternate (by a
    fixed function of the graph) between the interleaving and the tie labelling."""
    n = len(g)
    if n <= 3:
        return labelings(n, "eo") + labelings(n, "ties")
    if n == 4:
        ties = labelings(n, "ties")
        return labelings(n, "eo") + [ties[sum(len(r) + sum(r) for r in g) % len(ties)]]
    ties = labelings(n, "ties")
    menu = labelings(n, "eo") + ties          # 1 + 3 labellings; larger graphs get one of them each
    pick = sum(len(r) + sum(r) for r in g) % len(menu)
    return [menu[pick]]


def explore(fn, arg, bound, acc: Acc, case, label):
    """All runs of fn(arg) with at most ``bound`` non-default set orders; outcomes must coincide."""
    ref = [None]
    diffs = []

    def run(ch: Chooser):
        setorder.set_chooser(ch)
        try:
            return fn(arg)
        finally:
            setorder.set_chooser(None)

    def on_run(ch: Chooser, obs):
        if ref[0] is None:
            ref[0] = obs
        elif obs != ref[0] and not diffs:
            devs = [(i, c, ch.labels[i]) for i, c in enumerate(ch.choices) if c]
            diffs.append((tuple(ch.choices), devs))
    st = dfs_answers(run, on_run, bound_deviations=bound)
    acc.states += st.runs
    acc.transitions += st.choice_points
    acc.counters["runs"] += st.runs
    acc.counters["choice_points"] += st.choice_points
    acc.outcomes.add(hashlib.sha256(repr(ref[0]).encode()).hexdigest()[:12])
    if diffs:
        choices, devs = diffs[0]
        where = devs[0][2][1] if devs else "?"
        site = where.rsplit(":", 1)[0]
        c = dict(case)
        c.update(choices=list(choices), bound=bound)
        acc.viol(PROP, f"{PROP}/order-dependent/{label}", f"{label}: result differs from the default-order run when the set iterated at {where} "
                 f"is visited in another order (deviations {[(i, c_) for i, c_, _ in devs]})", (label, repr(arg)), site=site, case=c)


def _work(args):
    kind, payload, bound = args
    acc = Acc()
    if kind == "graphs":
        for fam, g in unit_graphs(payload):
            acc.counters[f"graphs[{fam}]"] += 1
            r0 = acc.counters["runs"]
            explore(dump_graph, g, 1, acc, graph_case(g, fam, "JLB", kind="graph"), "restructure")
            if len(g) >= 4 and fam != "LX":
                # the same graph under names whose order interleaves sibling loops / arms (families.labelings "mix")
                try:
                    for lab in c12_labelings(g):
                        set_labeling(lab)
                        acc.counters[f"graphs[{fam}~relabelled]"] += 1
                        explore(dump_graph, g, 1, acc, graph_case(g, fam + "~", "JLB", kind="graph"), "restructure")
                finally:
                    set_labeling(None)
            if bound >= 2:
                # two simultaneous deviations where the instance is small enough (quadratic in the d=1 run count)
                if acc.counters["runs"] - r0 <= D2_LIMIT:
                    explore(dump_graph, g, 2, acc, graph_case(g, fam, "JLB", kind="graph"), "restructure")
                    acc.counters["instances_with_2_deviations"] += 1
                else:
                    acc.counters["instances_with_1_deviation_only(too many choice points)"] += 1
            if len(acc.samples) < 2 and len(g) >= 4:
                acc.samples.append({"family": fam, "graph": [list(r) for r in g], "deviation_bound": bound})
    else:
        for label, src in payload:
            acc.counters["programs"] += 1
            explore(dump_source, src, bound, acc, {"kind": "source", "label": label, "source": src}, "source-pipeline")
            explore(dump_bytecode, src, bound, acc, {"kind": "bytecode", "label": label, "source": src}, "bytecode-front-end")
    return acc


def corpus(tier):
    from ..sweep import frontend_graphs
    graphs = [g for n in range(1, 5) for g in enum_closed(n)] + list(frontend_graphs(2)) + c12_lx()
    progs = list(skeleton_sources(1, "marked")) + list(skeleton_sources(1, "bare"))
    return graphs, progs


_S2SET = set()


def digest_corpus(tier) -> str:
    graphs, progs = corpus(tier)
    from ..sweep import frontend_graphs
    _S2SET.update(frontend_graphs(2))
    h = hashlib.sha256()
    for g in graphs:
        h.update(repr(dump_graph(g)).encode())
        if 4 <= len(g) <= 7 or (len(g) >= 4 and g in _S2SET):
            try:
                for lab in c12_labelings(g):
                    set_labeling(lab)
                    h.update(repr(dump_graph(g)).encode())
            finally:
                set_labeling(None)
    for label, src in progs:
        h.update(repr(dump_source(src)).encode())
        h.update(repr(dump_bytecode(src)).encode())
    return h.hexdigest()


def leg_main():
    print(digest_corpus(sys.argv[1] if len(sys.argv) > 1 else "quick"))


def _seed_leg(args):
    seed, tier = args
    env = dict(os.environ)
    env["PYTHONHASHSEED"] = str(seed)
    env["MC_C12_LEG"] = "1"
    env["PYTHONPATH"] = VERIF
    p = subprocess.run([sys.executable, "-c", "import mc.props.c12 as m; m.leg_main()", tier], cwd=VERIF, env=env,
                       capture_output=True, text=True, timeout=3000)
    if p.returncode != 0:
        return (seed, "ERROR: " + (p.stderr.strip().splitlines() or ["?"])[-1])
    return (seed, p.stdout.strip())


def run(tier: str, seed: int):
    units = []
    if tier == "quick":
        from ..sweep import frontend_graphs
        lxg = c12_lx()
        units += [("graphs", ("L", "LX", [g]), 1) for g in lxg]                  # the expensive instances first, one per unit
        s2g = sorted(frontend_graphs(2), key=len, reverse=True)   # CFGs of the source front end for S(<=2): up to 9 blocks
        units += [("graphs", ("L", "S2", s2g[i:i + 3]), 1) for i in range(0, len(s2g), 3)]
        units += [("graphs", u, 1) for u in units_for({"E": 4})]
        s1 = list(skeleton_sources(1, "marked")) + list(skeleton_sources(1, "bare"))
        units += [("progs", s1[i:i + 8], 1) for i in range(0, len(s1), 8)]
    else:
        units += [("graphs", u, 2) for u in units_for({"E": 4})]
        units += [("graphs", ("E", 5, p), 1) for _, p in shards(5, 3)]
        from ..sweep import frontend_graphs
        units += [("graphs", u, 1) for u in units_for({"LISTS": {"D(S1,1)": deviation_closure(frontend_graphs(1), 1)}})]
        from ..progs import chain_sources
        s2 = (list(skeleton_sources(1, "marked")) + list(skeleton_sources(1, "bare")) + list(chain_sources(2, "marked"))
              + list(chain_sources(2, "bare")) + list(skeleton_sources(2, "marked"))[62::4])
        units += [("progs", s2[i:i + 40], 1) for i in range(0, len(s2), 40)]
    acc = Acc()
    for r in shard_map(_work, rotate(units, seed)):
        acc.merge(r)
    # binding to real CPython: un-instrumented sub-processes under explicit hash seeds
    nseeds = 8 if tier == "quick" else 64
    base = seed * 1000
    seeds = [base + i for i in range(nseeds)]
    own = digest_corpus(tier)      # instrumented, default order
    results = shard_map(_seed_leg, [(s, tier) for s in seeds])
    digests = {}
    for s, d in results:
        digests.setdefault(d, []).append(s)
        acc.traces += 1
    if len(digests) != 1 or own not in digests:
        if any(d.startswith("ERROR") for d in digests):
            from ..kernel import HarnessError
            raise HarnessError(f"real-seed leg failed: {digests}")
        acc.viol(PROP, f"{PROP}/real-seeds-differ", f"digests of the corpus under PYTHONHASHSEED values differ or differ from the instrumented default run: "
                 f"{ {d[:10]: v[:4] for d, v in digests.items()} } vs instrumented {own[:10]}", ("real-seeds",),
                 case={"kind": "seeds", "tier": tier, "seeds": seeds})
    cov = {"rule": "every set created by the library is a VSet (import-time AST rewriting); each iteration / pop is a choice point offering sorted, "
                   "reversed, rotated (and for <= 4 elements all) orders; stateless DFS over all runs with at most d non-default choice points; "
                   "oracle: exact canonical dump (names, nesting, target order, tables, insertion order, name-generator counters) and regenerated "
                   "source text equal to the default-order run; a state is one complete run, a transition one choice point; traces = real "
                   "PYTHONHASHSEED sub-process runs of the un-instrumented library whose corpus digest must equal the instrumented default run",
           "bounds": {"deviation_bound": "1 (E<=4 graphs, S(1) programs)" if tier == "quick" else "2 on the E(<=4) graphs with <= 130 single-deviation runs, 1 on all of E(<=5), D(S1,1), S(1)+CH(2)+quarter of S(2) programs",
                      "real_seeds": nseeds},
           "rewritten_modules": setorder.rewritten_modules(),
           "real_seed_digests": {d[:16]: len(v) for d, v in digests.items()}, "instrumented_default_digest": own[:16]}
    return {"acc": acc, "coverage": cov, "assumptions": [
        "string-hash randomisation can influence the library only through set iteration order (dicts are insertion-ordered)",
        "any permutation of a small string set is realisable by some seed (over-approximation)"]}


def replay(case) -> Acc:
    acc = Acc()
    if case.get("kind") == "graph":
        g = tuple(tuple(r) for r in case["graph"])
        explore(dump_graph, g, case.get("bound", 1), acc, case, "restructure")
    elif case.get("kind") == "source":
        explore(dump_source, case["source"], case.get("bound", 1), acc, case, "source-pipeline")
    elif case.get("kind") == "bytecode":
        explore(dump_bytecode, case["source"], case.get("bound", 1), acc, case, "bytecode-front-end")
    elif case.get("kind") == "seeds":
        res = [_seed_leg((s, case["tier"])) for s in case["seeds"][:8]]
        if len({d for _, d in res}) != 1:
            acc.viol(PROP, f"{PROP}/real-seeds-differ", "digests differ", ("real-seeds",))
    return acc
