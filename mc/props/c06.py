"""C06 - control variables are assigned before use and in range (DESIGN 4/C06)."""
from __future__ import annotations

from numba_scfg.core.datastructures.basic_block import SyntheticBranch

from ..families import as_named, entry_name
from ..hier import Hier
from ..runner import Acc
from ..sweep import graph_case, graph_spec, staged, sweep
from ..walk import product

PROP = "C06"


def static_tables(hier: Hier, report):
    for name, b in hier.leaves().items():
        if isinstance(b, SyntheticBranch):
            vals = set(b.branch_value_table.values())
            jts = set(b._jump_targets)
            if not vals <= jts:
                report("static/table-names-non-successor", f"{type(b).__name__} {name!r}: table {dict(b.branch_value_table)!r} names {sorted(vals - jts)} not among targets {b._jump_targets!r}")
            if not jts <= vals:
                report("static/successor-without-entry", f"{type(b).__name__} {name!r}: targets {sorted(jts - vals)} have no table entry in {dict(b.branch_value_table)!r}")
            if not b.variable:
                report("static/no-variable", f"{type(b).__name__} {name!r} has no control variable")


def check_graph(g, fam, acc: Acc, opts):
    G = as_named(g)
    payload = opts.get("payload", "basic")
    for stage, scfg, exc in staged(g, payload):
        if exc is not None:
            acc.counters[f"skipped_stage_raised[{stage}]"] += 1
            return
        hier = Hier(scfg)
        seen = set()

        def report(clause, detail, kind="-", path=()):
            if (clause, kind) in seen:
                return
            seen.add((clause, kind))
            acc.viol(PROP, f"{PROP}/{clause}", detail, (g, stage, kind), site=stage,
                     case=graph_case(g, fam, stage, walker=kind, payload=payload, decisions=[list(p) for p in path]))
        static_tables(hier, report)
        for kind in ("name", "region"):
            r = product(G, entry_name(), hier, kind, max_violations=50)
            acc.states += r.states
            acc.transitions += r.transitions
            acc.counters["stale_nonlatch_reads(info)"] += r.info.get("stale_nonlatch_reads", 0)
            acc.counters["synthetic_steps"] += r.synthetic_steps
            for clause, detail, path in r.violations:
                if clause.startswith("ctrl/"):
                    report(clause, detail, kind, path)
                else:
                    acc.counters[f"walk_failed_elsewhere[{clause}]"] += 1   # C01/C04's clause
            acc.outcomes.add((r.states, r.synthetic_steps))
    if len(acc.samples) < 3 and len(g) >= 5:
        acc.samples.append({"family": fam, "graph": [list(r) for r in g]})


def run(tier: str, seed: int):
    spec = graph_spec(tier)
    acc = sweep(__name__, spec, {}, seed)
    cov = {"rule": "product of original graph x hierarchy x control-variable valuation (+ per-latch freshness monitor) explored to the "
                   "fix-point under both walkers at every stage prefix; plus static table/successor agreement of every branching block",
           "bounds": {"E_max_blocks": spec["E"], "lists": {k: len(v) for k, v in spec["LISTS"].items()}, "fig": True},
           "instances": sum(v for k, v in acc.counters.items() if k.startswith("graphs["))}
    return {"acc": acc, "coverage": cov, "assumptions": [
        "freshness ('since the last time the same block ran') is enforced for exiting latches only; other branching blocks counted as info"]}


def replay(case) -> Acc:
    acc = Acc()
    check_graph(tuple(tuple(r) for r in case["graph"]), case.get("family", "replay"), acc, {"payload": case.get("payload", "basic")})
    return acc
