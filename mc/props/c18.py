"""C18 - generated names are fresh: never reused, never clobbering existing blocks (DESIGN 4/C18)."""
from __future__ import annotations

import itertools

from ..canon import cdump
from ..families import as_named, enum_closed, make_scfg, shards
from ..hier import Hier
from ..kernel import guarded, bfs, shard_map
from ..runner import Acc
from ..sweep import exc_fingerprint, graph_case, rotate, unit_graphs, units_for
from ..walk import product
from .c15 import GAPS, STAGES, histories

PROP = "C18"
KINDS = ("synth_asign", "synth_head", "head", "loop", "control", "x_block", "x_region", "x_var", "meta")
FLAVOURS = ("block", "region", "var")


# -- (i) name-request sequences ------------------------------------------------------------

def request_sequences(depth: int, acc: Acc):
    from numba_scfg.core.datastructures.scfg import NameGenerator, SCFG
    alphabet = [(f, k) for f in FLAVOURS for k in KINDS]

    def replay(hist):
        ng = NameGenerator()
        top = SCFG(name_gen=ng)               # a graph ...
        sub = SCFG(name_gen=top.name_gen)     # ... and an extracted sub-graph share one generator
        names = [top.region.name, sub.region.name]
        for i, (f, k) in enumerate(hist):
            gen = (top if i % 2 == 0 else sub).name_gen
            names.append(getattr(gen, f"new_{f}_name")(k))
        return ng, names

    def successors(state):
        hist = state
        for ev in alphabet:
            yield ev, hist + (ev,)

    def invariant(s, label, nxt):
        ng, names = replay(nxt)
        if len(set(names)) != len(names):
            dup = [n for n in names if names.count(n) > 1][0]
            acc.viol(PROP, f"{PROP}/requests/name-reused", f"request sequence {list(nxt)} hands out {dup!r} twice", (nxt,),
                     case={"kind": "requests", "sequence": [list(x) for x in nxt]})

    def key(hist):
        ng, names = replay(hist)
        # the counters decide every future name; the set of names handed out decides the invariant
        return (tuple(sorted(ng.kinds.items())), frozenset(names))
    st = bfs([()], successors, key=key, invariant=invariant, max_depth=depth)
    acc.states += st.states
    acc.transitions += st.transitions
    acc.counters["request_sequence_states"] = st.states


# -- (iv) existing names x requests --------------------------------------------------------------
# A graph arrives (constructed, or read back from a dictionary / YAML) with blocks that already carry generator-style
# names, in any order and with any indices - in particular indices around the decimal carries (9/10, 99/100), where numeric
# and textual order disagree.  Whatever is requested next must not be one of them.

RESERVE_IDX = (0, 1, 2, 9, 10, 11, 99, 100)
RESERVE_KINDS = ("synth_asign", "loop", "fan-out", "a.b c")


def _name(flavour, kind, idx):
    return {"block": f"{kind}_block_{idx}", "region": f"{kind}_region_{idx}", "var": f"__scfg_{kind}_var_{idx}__"}[flavour]


def _reserve_work(args):
    from numba_scfg.core.datastructures.scfg import SCFG
    from numba_scfg.core.datastructures.basic_block import BasicBlock
    kind, firsts, max_len, paths = args
    acc = Acc()
    alphabet = [_name(f, kind, i) for f in FLAVOURS for i in RESERVE_IDX]

    def tuples(prefix):
        yield prefix
        if len(prefix) < max_len:
            for nme in alphabet:
                if nme not in prefix:
                    yield from tuples(prefix + (nme,))
    for first in firsts:
        for existing in tuples((first,)):
            names = ("entry",) + existing
            graph = {}
            for i, nme in enumerate(names):
                graph[nme] = BasicBlock(name=nme, _jump_targets=(names[i + 1],) if i + 1 < len(names) else ())
            for path in paths:
                try:
                    scfg = SCFG(graph=dict(graph))
                    if path == "dict":
                        scfg, _ = SCFG.from_dict(scfg.to_dict())
                    elif path == "yaml":
                        scfg, _ = SCFG.from_yaml(scfg.to_yaml())
                except Exception as e:  # noqa: BLE001
                    et, site = exc_fingerprint(e)
                    acc.viol(PROP, f"{PROP}/reserve/raises/{et}", f"building/reloading a graph with block names {list(existing)} via {path} raised {et} at {site}",
                             (existing, path), site=site, case={"kind": "reserve", "existing": list(existing), "path": path, "name_kind": kind})
                    continue
                handed = []
                for flavour in FLAVOURS + FLAVOURS:
                    handed.append(getattr(scfg.name_gen, f"new_{flavour}_name")(kind))
                acc.states += 1
                acc.transitions += len(handed)
                acc.counters[f"reserve_cases[{path}]"] += 1
                clash = [h for h in handed if h in graph]
                if clash or len(set(handed)) != len(handed):
                    acc.viol(PROP, f"{PROP}/reserve/name-exists", f"graph with blocks {list(existing)} (via {path}): the next requests for kind "
                             f"{kind!r} hand out {handed}, of which {clash or 'a duplicate'} already exist(s)", (existing, path),
                             shape=path, case={"kind": "reserve", "existing": list(existing), "path": path, "name_kind": kind})
    return acc


def reserve_space(tier: str, acc: Acc):
    units = []
    for kind in RESERVE_KINDS:
        alphabet = [_name(f, kind, i) for f in FLAVOURS for i in RESERVE_IDX]
        for nme in alphabet:
            units.append((kind, [nme], 3 if tier != "quick" else 2, ("new", "dict")))
            units.append((kind, [nme], 2 if tier != "quick" else 1, ("yaml",)))
    for r in shard_map(_reserve_work, units):
        acc.merge(r)


# -- (ii)/(iii) histories with instrumentation ------------------------------------------------

class Monitor:
    """Wraps NameGenerator.new_* and SCFG.add_block inside the checker process."""
    installed = False
    current = None

    def __init__(self, top, report):
        self.top = top
        self.report = report
        self.handed = set()
        self.popped = {}

    @classmethod
    def install(cls):
        if cls.installed:
            return
        cls.installed = True
        from numba_scfg.core.datastructures.scfg import NameGenerator, SCFG

        def wrap_new(name):
            orig = getattr(NameGenerator, name)

            def w(self, kind):
                r = orig(self, kind)
                m = cls.current
                if m is not None and self is m.top.name_gen:
                    m.on_name(r, name)
                return r
            setattr(NameGenerator, name, w)
        for n in ("new_block_name", "new_region_name", "new_var_name"):
            wrap_new(n)
        orig_add = SCFG.add_block

        def add_block(self, block):
            m = cls.current
            if m is not None:
                m.on_add(self, block)
            return orig_add(self, block)
        SCFG.add_block = add_block

    def all_names(self):
        names = set()
        stack = [self.top]
        seen = set()
        from numba_scfg.core.datastructures.basic_block import RegionBlock, SyntheticAssignment, SyntheticBranch
        while stack:
            s = stack.pop()
            if id(s) in seen:
                continue
            seen.add(id(s))
            for k, b in s.graph.items():
                names.add(k)
                if isinstance(b, RegionBlock) and b.subregion is not None:
                    stack.append(b.subregion)
                if isinstance(b, SyntheticBranch):
                    names.add(b.variable)
                if isinstance(b, SyntheticAssignment):
                    names.update(b.variable_assignment)
        return names

    def on_name(self, name, how):
        if name in self.handed:
            self.report("history/name-reused", f"{how} handed out {name!r} a second time")
        self.handed.add(name)
        if not name.startswith("meta_region_") and name in self.all_names():
            self.report("history/name-exists", f"{how} handed out {name!r} which already names a block, region or control variable of the graph")

    def on_add(self, scfg, block):
        old = scfg.graph.get(block.name)
        if old is not None and old is not block and type(old) is not type(block):
            self.report("history/overwrite", f"add_block replaced {type(old).__name__} {block.name!r} by a {type(block).__name__}")


def run_history(g, payload, hist, rename, acc, fam, shared=False):
    from numba_scfg.core.datastructures.scfg import SCFG
    Monitor.install()
    scfg = make_scfg(g, payload, rename, shared=shared)
    from ..families import nm as _nm
    names0 = [rename[i] if rename else _nm(i) for i in range(len(g))]
    G0 = {names0[i]: tuple(names0[t] for t in row) for i, row in enumerate(g)}
    seen = set()

    def report(clause, detail):
        if clause in seen:
            return
        seen.add(clause)
        acc.viol(PROP, f"{PROP}/{clause}", detail, (g, payload, hist, tuple(sorted((rename or {}).items()))),
                 shape="reloaded" if hist else ("namespace-input" if rename else ""),
                 case=graph_case(g, fam, "history", payload=payload, history=[list(h) for h in hist],
                                 rename={str(k): v for k, v in (rename or {}).items()}, shared_generator=shared))
    Monitor.current = Monitor(scfg, report)
    try:
        for gap in range(GAPS):
            for (gp, kind) in hist:
                if gp != gap:
                    continue
                try:
                    if kind == "d":
                        scfg, _ = SCFG.from_dict(scfg.to_dict())
                    else:
                        scfg, _ = SCFG.from_yaml(scfg.to_yaml())
                except Exception:  # noqa: BLE001   (C15)
                    acc.counters["round_trip_raised(C15)"] += 1
                    return
                Monitor.current = Monitor(scfg, report)
            if gap == GAPS - 1:
                break
            nblocks = len(Hier(scfg).flat)
            try:
                guarded(getattr(scfg, STAGES[gap]))
            except Exception as e:  # noqa: BLE001
                et, site = exc_fingerprint(e)
                if hist or rename:
                    report(f"history/stage-raises/{et}", f"{STAGES[gap]} raised {et} at {site} on a graph that restructures fine without reload/renaming")
                else:
                    acc.counters["stage_raised(C02)"] += 1
                return
            acc.transitions += 1
            h = Hier(scfg)
            if h.problems:
                report("history/duplicate-names", f"after {STAGES[gap]}: {h.problems[0][1]}")
            if len(h.flat) < nblocks:
                report("history/blocks-lost", f"{STAGES[gap]} shrank the hierarchy from {nblocks} to {len(h.flat)} blocks")
        # end to end: an overwritten block shows up as a lost path
        r = product(G0, names0[0], Hier(scfg), "name", max_violations=1)
        for clause, detail, path in r.violations:
            report(f"history/paths/{clause}", detail)
        acc.states += 1
    finally:
        Monitor.current = None


from ..families import NAMESPACE_NAMES as _NS_ALL
NAMESPACE_NAMES = [n for n in _NS_ALL if n not in ("synth_return_block_1", "synth_head_block_1", "loop_region_1") and not n.endswith(("_9", "_10"))]


def _work(args):
    unit, opts = args
    acc = Acc()
    for fam, g in unit_graphs(unit):
        acc.counters[f"graphs[{fam}]"] += 1
        for hist in opts["histories"]:
            run_history(g, "basic", hist, None, acc, fam)
        if 2 <= len(g) <= 4:
            from ..families import labelings, set_labeling
            try:
                for lab in labelings(len(g), "few"):
                    set_labeling(lab)
                    acc.counters[f"graphs[{fam}~relabelled]"] += 1
                    for hist in histories(1):
                        run_history(g, "basic", hist, None, acc, fam + "~")
            finally:
                set_labeling(None)
        if opts.get("namespace"):
            n = len(g)
            # entry keeps a neutral name; every other block gets a name from the generator's namespace
            for combo in itertools.permutations(NAMESPACE_NAMES[:opts["namespace"]], n - 1):
                rename = {0: "entry"}
                rename.update({i + 1: nm for i, nm in enumerate(combo)})
                run_history(g, "basic", (), rename, acc, fam + "/ns")
                # the same input constructed with a generator that another graph has used before (name_gen= is public)
                run_history(g, "basic", (), rename, acc, fam + "/ns@shared", shared=True)
                acc.counters["namespace_inputs"] += 2
        if len(acc.samples) < 2 and len(g) >= 4:
            acc.samples.append({"family": fam, "graph": [list(r) for r in g], "histories": [[list(h) for h in x] for x in opts["histories"][:5]]})
    return acc


def run(tier: str, seed: int):
    acc = Acc()
    request_sequences(4 if tier == "quick" else 5, acc)
    reserve_space(tier, acc)
    h2, h1 = histories(2), histories(1)
    units = []
    if tier == "quick":
        units += [(u, {"histories": h1, "namespace": 6}) for u in units_for({"E": 3})]
        units += [(u, {"histories": h2}) for u in units_for({"E": 4}) if u[1] == 4]
        units += [(("E", 5, p), {"histories": h1}) for _, p in shards(5, 3)]
    else:
        units += [(u, {"histories": h2, "namespace": 10}) for u in units_for({"E": 3})]
        units += [(u, {"histories": h2, "namespace": 5}) for u in units_for({"E": 4}) if u[1] == 4]
        units += [(("E", 5, p), {"histories": h2}) for _, p in shards(5, 3)]
    for r in shard_map(_work, rotate(units, seed)):
        acc.merge(r)
    cov = {"rule": "(i) explicit-state BFS over name-request sequences (3 flavours x 9 kinds, graph and sub-graph sharing a generator), state = "
                   "counters + names handed out; (ii) stage pipeline histories with <= k dict/YAML reloads in the gaps, NameGenerator.new_* and "
                   "SCFG.add_block wrapped: a name handed out must not exist anywhere in the hierarchy, add_block must not replace a block of "
                   "another type, hierarchy must not shrink, paths preserved end to end; (iii) inputs whose block names lie in the generator's "
                   "own namespace (all injective assignments of reserved-looking names to the non-entry blocks of E(3)/E(4)); (iv) every "
                   "ordered tuple of up to k generator-style names (3 flavours x indices 0,1,2,9,10,11,99,100) as existing blocks of a graph "
                   "that is constructed / reloaded from dict / reloaded from YAML, followed by six requests of that kind",
           "bounds": {"request_depth": 4 if tier == "quick" else 5, "max_reloads": 2, "histories_per_graph": len(h2)}}
    return {"acc": acc, "coverage": cov, "assumptions": [
        "pop-then-add of the same name with the same block type is the library's update idiom and is not an overwrite"]}


def _reserve_replay(case) -> Acc:
    acc = Acc()
    want = tuple(case["existing"])
    r = _reserve_work((case["name_kind"], [want[0]], len(want), (case["path"],)))
    acc.viols = [v for v in r.viols if tuple((v.get("case") or {}).get("existing", ())) == want] or r.viols[:0]
    if not acc.viols:
        # the case dict is attached to the first few violations only: recompute directly
        acc.viols = [v for v in r.viols if repr(list(want)) in v["detail"]]
    return acc


def replay(case) -> Acc:
    acc = Acc()
    if case.get("kind") == "requests":
        from numba_scfg.core.datastructures.scfg import NameGenerator
        ng = NameGenerator()
        names = [getattr(ng, f"new_{f}_name")(k) for f, k in case["sequence"]]
        if len(set(names)) != len(names):
            acc.viol(PROP, f"{PROP}/requests/name-reused", "name handed out twice", (tuple(map(tuple, case["sequence"])),))
        return acc
    if case.get("kind") == "reserve":
        return _reserve_work((case["name_kind"], [case["existing"][0]], 0, (case["path"],))) if len(case["existing"]) == 1 else \
            _reserve_replay(case)
    g = tuple(tuple(r) for r in case["graph"])
    hist = tuple(tuple(h) for h in case.get("history", []))
    rename = {int(k): v for k, v in (case.get("rename") or {}).items()} or None
    run_history(g, case.get("payload", "basic"), hist, rename, acc, case.get("family", "replay"), shared=bool(case.get("shared_generator")))
    return acc
