"""C17 - rendering never fails and draws exactly the graph (DESIGN 4/C17)."""
from __future__ import annotations

import ast
import collections
import dis

from numba_scfg.core.datastructures.basic_block import (
    PythonASTBlock, PythonBytecodeBlock, RegionBlock, SyntheticAssignment, SyntheticBranch,
)

from ..dotparse import DotError, parse
from ..hier import Hier
from ..kernel import guarded, shard_map
from ..progs import skeleton_sources
from ..runner import Acc
from ..sweep import exc_fingerprint, graph_case, graph_spec, rotate, staged, sweep

PROP = "C17"


def expected_edges(hier: Hier):
    solid, dashed = collections.Counter(), collections.Counter()
    for name, b in hier.leaves().items():
        for t in b.jump_targets:
            r = hier.resolve_flat(t)
            if r is not None:
                solid[(name, r)] += 1
        for t in b.backedges:
            r = hier.resolve_flat(t)
            if r is not None:
                dashed[(name, r)] += 1
    return solid, dashed


def check_dot(src: str, scfg, report, arrow: str, bcmap=None):
    hier = Hier(scfg)
    try:
        dot = parse(src)
    except DotError as e:
        report("dot-unparseable", str(e))
        return
    # cluster tree == region tree, nodes == leaves in the right cluster
    def walk(cl, level):
        regions_here = {k: b for k, b in level.graph.items() if isinstance(b, RegionBlock)}
        leaves_here = {k: b for k, b in level.graph.items() if not isinstance(b, RegionBlock)}
        if cl.duplicate_nodes:
            report("nodes/duplicate", f"nodes drawn twice: {sorted(set(cl.duplicate_nodes))}")
        if set(cl.nodes) != set(leaves_here):
            report("nodes/differ", f"in {cl.name or '<top>'}: drawn {sorted(set(cl.nodes) - set(leaves_here))} extra, "
                                   f"missing {sorted(set(leaves_here) - set(cl.nodes))}")
        names = [c.name for c in cl.children]
        want = [f"cluster_{k}" for k in regions_here]
        if sorted(names) != sorted(want):
            report("clusters/differ", f"in {cl.name or '<top>'}: clusters {sorted(names)} vs regions {sorted(want)}")
        for c in cl.children:
            rn = (c.name or "")[len("cluster_"):]
            if rn in regions_here:
                lab = c.attrs.get("label", "")
                if rn not in lab:
                    report("labels/cluster", f"cluster of region {rn!r} is labelled {lab!r}")
                walk(c, regions_here[rn].subregion)
        for k, b in leaves_here.items():
            if k not in cl.nodes:
                continue
            lab = cl.nodes[k].get("label", "")
            if k not in lab:
                report("labels/name", f"label of {k!r} does not show its name: {lab!r}")
            if isinstance(b, SyntheticBranch):
                if b.variable not in lab:
                    report("labels/variable", f"label of {k!r} does not show control variable {b.variable!r}")
                for key, tgt in b.branch_value_table.items():
                    if f"{key}{arrow}{tgt}" not in lab.replace(" ", ""):
                        report("labels/table-row", f"label of {k!r} lacks table row {key}{arrow}{tgt}: {lab!r}")
            elif isinstance(b, SyntheticAssignment):
                for var, val in b.variable_assignment.items():
                    if f"{var} = {val}" not in lab:
                        report("labels/assignment", f"label of {k!r} lacks assignment {var} = {val}: {lab!r}")
            elif isinstance(b, PythonASTBlock):
                for st in b.tree:
                    if ast.unparse(st).replace('"', '\\"') not in lab and ast.unparse(st) not in lab:
                        report("labels/ast-statement", f"label of {k!r} lacks statement {ast.unparse(st)!r}")
            elif isinstance(b, PythonBytecodeBlock) and bcmap is not None:
                for ins in b.get_instructions(bcmap):
                    if ins.opname not in lab:
                        report("labels/opname", f"label of {k!r} lacks opcode {ins.opname}")
    walk(dot.root, scfg)
    solid, dashed = expected_edges(hier)
    got_s, got_d = collections.Counter(), collections.Counter()
    for a, b, at in dot.edges:
        if at.get("style") == "dashed":
            got_d[(a, b)] += 1
        else:
            got_s[(a, b)] += 1
    if got_s != solid:
        report("edges/solid", f"solid edges: missing {dict(solid - got_s)}, extra {dict(got_s - solid)}")
    if got_d != dashed:
        report("edges/dashed", f"dashed edges: missing {dict(dashed - got_d)}, extra {dict(got_d - dashed)}")
    return len(dot.edges)


PRIMERS = (((1,), (1, 2), ()), ((1, 2), (3,), (3,), ()), ((1, 2), (2, 3), (3,), ()))


_PRIMED = [False]


def prime():
    """Render fixed small hierarchies first: a renderer must not carry state from one drawing to the next.
    (Makes every instance a 2-step history that the replay repeats.)"""
    from numba_scfg.rendering.rendering import SCFGRenderer
    from ..families import make_scfg
    if _PRIMED[0]:
        return
    _PRIMED[0] = True
    for pg in PRIMERS:
        s = make_scfg(pg)
        try:
            s.restructure()
            SCFGRenderer(s).render_scfg().source
        except Exception:  # noqa: BLE001
            pass


def check_graph(g, fam, acc: Acc, opts):
    from numba_scfg.rendering.rendering import SCFGRenderer
    prime()
    for payload in opts.get("payloads", ("basic", "ast")):
        for stage, scfg, exc in staged(g, payload, include_input=True):
            if exc is not None:
                acc.counters[f"skipped_stage_raised[{stage}]"] += 1
                break
            seen = set()

            def report(clause, detail, site=""):
                if clause in seen:
                    return
                seen.add(clause)
                acc.viol(PROP, f"{PROP}/{clause}", detail, (g, stage, payload), site=site or stage,
                         case=graph_case(g, fam, stage, payload=payload, kind="graph"))
            try:
                src = SCFGRenderer(scfg).render_scfg().source
            except Exception as e:  # noqa: BLE001
                et, site = exc_fingerprint(e)
                report(f"render-raises/{et}", f"SCFGRenderer raised {et}: {e} at {site}", site=site)
                continue
            n = check_dot(src, scfg, report, "→")
            acc.states += 1
            acc.transitions += n or 0
            acc.outcomes.add(len(src))
    if len(acc.samples) < 2 and len(g) >= 5:
        acc.samples.append({"family": fam, "graph": [list(r) for r in g], "stages": ["0", "J", "JL", "JLB"], "payloads": ["basic", "ast"]})


def check_function(label, src, acc: Acc):
    from numba_scfg.core.datastructures.byte_flow import ByteFlow
    from numba_scfg.rendering.rendering import ByteFlowRenderer
    ns = {}
    exec(compile(src, f"<{label}>", "exec"), ns)
    f = ns["f"]
    prime()
    try:
        flow = ByteFlow.from_bytecode(f)
    except Exception:  # noqa: BLE001  (C09)
        acc.counters["byteflow_build_raised(C09)"] += 1
        return
    bcmap = {i.offset: i for i in flow.bc}
    steps = (("0", lambda: None), ("J", flow.scfg.join_returns), ("JL", flow.scfg.restructure_loop), ("JLB", flow.scfg.restructure_branch))
    for stage, fn in steps:
        try:
            guarded(fn)
        except Exception:  # noqa: BLE001  (C02)
            acc.counters["byteflow_stage_raised(C02)"] += 1
            return
        seen = set()

        def report(clause, detail, site=""):
            if clause in seen:
                return
            seen.add(clause)
            acc.viol(PROP, f"{PROP}/byteflow/{clause}", f"{label}: {detail}", (src, stage), site=site or stage,
                     case={"kind": "function", "label": label, "source": src, "stage": stage})
        try:
            dot = ByteFlowRenderer().render_byteflow(flow).source
        except Exception as e:  # noqa: BLE001
            et, site = exc_fingerprint(e)
            report(f"render-raises/{et}", f"ByteFlowRenderer raised {et}: {e} at {site}", site=site)
            continue
        n = check_dot(dot, flow.scfg, report, "=>", bcmap)
        acc.states += 1
        acc.transitions += n or 0
        acc.outcomes.add(len(dot))


# statement texts with characters that mean something to a formatter, to DOT or to a record label
TEXT_PROGRAMS = {
    "dict_display": "def f(a):\n    d = {1: 2, 'k': a}\n    if a:\n        d = {}\n    return d\n",
    "set_and_comprehension": "def f(a):\n    s = {a, 1}\n    if a:\n        s = {x: [y for y in s] for x in s}\n    return s\n",
    "fstring": "def f(a):\n    s = f'{a}-{a!r:>{a}}'\n    if a:\n        s = f'{{literal}} {a}'\n    return s\n",
    "format_calls": "def f(a):\n    s = '%s and %(k)s %%' % a\n    if a:\n        s = '{} {0} {name} {block}'.format(a)\n    return s\n",
    "quotes": "def f(a):\n    s = 'it\\'s \"quoted\"'\n    if a:\n        s = \"dq 'x'\"\n    return s\n",
    "backslashes": "def f(a):\n    s = 'a\\\\b\\n\\t'\n    if a:\n        s = r'\\d+\\l\\r\\N'\n    return s\n",
    "record_characters": "def f(a):\n    s = (a < 1) | (2 > a)\n    if a:\n        s = '<x>|{y}|[z]'\n    return s\n",
    "non_ascii": "def f(a):\n    s = 'h\u00e9llo \u2192 \u2200'\n    if a:\n        s = 'na\u00efve'\n    return s\n",
    "tests_with_braces": "def f(a):\n    if a in {1, 2}:\n        return {a: a}\n    while a != {}:\n        a = {}\n    return f'{a}'\n",
    "percent_and_hash": "def f(a):\n    s = a % 3  # comment\n    if a:\n        s = '#%d' % a\n    return s\n",
    "long_statement": "def f(a):\n    s = " + " + ".join(f"a * {i}" for i in range(60)) + "\n    if a:\n        s = 0\n    return s\n",
    "semicolon_colon": "def f(a):\n    s = a[1:2]; t = a[::2]\n    if a:\n        s = {'k': lambda q: q}\n    return s\n",
    "for_with_braces": "def f(a):\n    for x in {1: 'a'}.items():\n        a = f'{x}'\n    return a\n",
}


def check_source(label, src, acc: Acc):
    """Graphs of the SOURCE front end whose statement texts contain braces, quotes, backslashes, %, <, >, |, non-ASCII."""
    from numba_scfg.core.datastructures.ast_transforms import AST2SCFG
    from numba_scfg.rendering.rendering import SCFGRenderer
    prime()
    try:
        scfg = AST2SCFG(src)
    except Exception:  # noqa: BLE001  (C07/C08/C11)
        acc.counters["source_front_end_raised(C07)"] += 1
        return
    steps = (("0", lambda: None), ("J", scfg.join_returns), ("JL", scfg.restructure_loop), ("JLB", scfg.restructure_branch))
    for stage, fn in steps:
        try:
            guarded(fn)
        except Exception:  # noqa: BLE001  (C02)
            acc.counters["source_stage_raised(C02)"] += 1
            return
        seen = set()

        def report(clause, detail, site=""):
            if clause in seen:
                return
            seen.add(clause)
            acc.viol(PROP, f"{PROP}/source/{clause}", f"{label}: {detail}", (src, stage), site=site or stage,
                     case={"kind": "source", "label": label, "source": src, "stage": stage})
        try:
            dot = SCFGRenderer(scfg).render_scfg().source
        except Exception as e:  # noqa: BLE001
            et, site = exc_fingerprint(e)
            report(f"render-raises/{et}", f"SCFGRenderer raised {et}: {str(e)[:100]} at {site}", site=site)
            continue
        n = check_dot(dot, scfg, report, "→")
        acc.states += 1
        acc.transitions += n or 0
        acc.outcomes.add(len(dot))


def check_one_of_each(acc: Acc):
    from numba_scfg.rendering.rendering import SCFGRenderer
    from ..families import one_of_each_type
    scfg, types = one_of_each_type()
    seen = set()

    def report(clause, detail, site=""):
        if clause in seen:
            return
        seen.add(clause)
        acc.viol(PROP, f"{PROP}/each-type/{clause}", f"graph with one block of every registered type: {detail}", ("one-of-each",),
                 site=site or "one-of-each", case={"kind": "one-of-each"})
    try:
        dot = SCFGRenderer(scfg).render_scfg().source
    except Exception as e:  # noqa: BLE001
        et, site = exc_fingerprint(e)
        report(f"render-raises/{et}", f"SCFGRenderer raised {et}: {str(e)[:100]} at {site}", site=site)
        return
    check_dot(dot, scfg, report, "→")
    acc.states += 1
    acc.counters["one_of_each_type_renderings"] += 1


def _work(chunk):
    acc = Acc()
    for label, src in chunk:
        if label == "EACH":
            check_one_of_each(acc)
            continue
        if label.startswith("TEXT/"):
            check_source(label, src, acc)
        else:
            check_function(label, src, acc)
    return acc


def run(tier: str, seed: int):
    spec = graph_spec(tier, light=True)
    acc = sweep(__name__, spec, {}, seed)
    progs = rotate(list(skeleton_sources(2 if tier == "quick" else 3, "marked", loop_else_upto=2)), seed)
    if tier == "quick":
        progs = [p for i, p in enumerate(progs)]
    from ..progs import all_target_programs
    texts = [(f"TEXT/{k}", v) for k, v in TEXT_PROGRAMS.items()] + [(f"TEXT/{k}", v) for k, v in all_target_programs()]
    for r in shard_map(_work, [progs[i:i + 200] for i in range(0, len(progs), 200)] + [texts[i:i + 10] for i in range(0, len(texts), 10)]
                       + [[("EACH", "")]]):
        acc.merge(r)
    cov = {"rule": "SCFGRenderer DOT source of every closed CFG (plain and AST payload) x {input, J, JL, JLB}, and ByteFlowRenderer DOT source of "
                   "every skeleton function's bytecode graph at the same prefixes, parsed and compared with the hierarchy: nodes, cluster tree, "
                   "solid/dashed edge multisets (edges to regions drawn to the innermost header), labels; plus graphs of the source front end "
                   "whose statement texts contain braces, quotes, backslashes, %, <, >, |, non-ASCII; a state is one rendered drawing, a "
                   "transition one drawn edge",
           "bounds": {"E_max_blocks": spec["E"], "lists": {k: len(v) for k, v in spec["LISTS"].items()}, "byteflow_programs": len(progs)}}
    return {"acc": acc, "coverage": cov, "assumptions": ["only the DOT text is examined (no dot binary, viewer or PDF)"]}


def replay(case) -> Acc:
    acc = Acc()
    if case.get("kind") == "one-of-each":
        check_one_of_each(acc)
    elif case.get("kind") == "source":
        check_source(case["label"], case["source"], acc)
    elif case.get("kind") == "function":
        check_function(case["label"], case["source"], acc)
    else:
        check_graph(tuple(tuple(r) for r in case["graph"]), case.get("family", "replay"), acc, {"payloads": (case.get("payload", "basic"),)})
    return acc
