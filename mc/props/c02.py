"""C02 - restructuring accepts every closed CFG: no exception, terminates (DESIGN 4/C02)."""
from __future__ import annotations

from ..kernel import CpuBudget
from ..runner import Acc
from ..sweep import exc_fingerprint, graph_case, graph_spec, staged, sweep

PROP = "C02"


class Diverged(Exception):
    pass


def _install_budget(limit_holder):
    """Deterministic progress budget: count name allocations and add_block calls."""
    from numba_scfg.core.datastructures.scfg import NameGenerator, SCFG
    if getattr(SCFG, "_verif_budget", False):
        return
    SCFG._verif_budget = True

    def wrap(cls, name):
        orig = getattr(cls, name)

        def w(self, *a, **k):
            limit_holder[0] -= 1
            if limit_holder[0] < 0:
                raise Diverged(f"progress budget exhausted in {name}")
            return orig(self, *a, **k)
        setattr(cls, name, w)
    for n in ("new_block_name", "new_region_name", "new_var_name"):
        wrap(NameGenerator, n)
    wrap(SCFG, "add_block")


_BUDGET = [10 ** 9]


def check_graph(g, fam, acc: Acc, opts):
    _install_budget(_BUDGET)
    _BUDGET[0] = 200 * (len(g) + 10)
    payload = opts.get("payload", "basic")
    done = "none"
    for stage, scfg, exc in staged(g, payload):
        _BUDGET[0] = 200 * (len(g) + 10)
        if exc is not None:
            if isinstance(exc, CpuBudget.Exceeded):
                et, site = "NonTermination", "cpu budget (60 CPU-s) exceeded"
            else:
                et, site = exc_fingerprint(exc)
            acc.viol(PROP, f"{PROP}/raises/{et}", f"stage {stage} raised {et}: {exc} at {site}", (g, stage),
                     site=site, case=graph_case(g, fam, stage, payload=payload))
            acc.outcomes.add((stage, et, site))
            break
        done = stage
        acc.states += 1
        acc.transitions += 1
    acc.outcomes.add(("completed", done))
    acc.counters[f"completed_through[{done}]"] += 1
    if len(acc.samples) < 3 and len(g) >= 5:
        acc.samples.append({"family": fam, "graph": [list(r) for r in g], "completed_through": done})
    _BUDGET[0] = 10 ** 9


def run(tier: str, seed: int):
    spec = graph_spec(tier)
    acc = sweep(__name__, spec, {}, seed)
    cov = {
        "rule": "every closed CFG of the listed families is an input of join_returns, restructure_loop, restructure_branch "
                "called stage by stage; a state is a (graph, stage reached) pair, a transition one real stage call; "
                "oracle: no exception, progress budget 200*(n+10) name/add_block operations per stage, 60 CPU-s backstop",
        "bounds": {"E_max_blocks": spec["E"], "lists": {k: len(v) for k, v in spec["LISTS"].items()}, "fig": True},
        "instances": sum(v for k, v in acc.counters.items() if k.startswith("graphs[")),
    }
    return {"acc": acc, "coverage": cov, "assumptions": [
        "domain: closed CFGs with <= 2 ordered distinct successors per block (DESIGN section 9)",
        "seeded random graphs of the quantifier are replaced by the deviation-bounded exhaustive family D"]}


def replay(case) -> Acc:
    acc = Acc()
    g = tuple(tuple(r) for r in case["graph"])
    check_graph(g, case.get("family", "replay"), acc, {"payload": case.get("payload", "basic")})
    return acc
