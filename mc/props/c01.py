"""C01 - restructuring preserves every execution path (DESIGN 4/C01)."""
from __future__ import annotations

from ..families import as_named, entry_name, get_labeling
from ..hier import Hier
from ..runner import Acc
from ..sweep import graph_case, graph_spec, staged, sweep, exc_fingerprint
from ..walk import product
from ..conform import generated_code_leg, simulator_leg

PROP = "C01"
WALKERS = ("name", "region")


def check_graph(g, fam, acc: Acc, opts):
    G = as_named(g)
    payload = opts.get("payload", "basic")
    for stage, scfg, exc in staged(g, payload):
        if exc is not None:
            acc.counters[f"skipped_stage_raised[{stage}]"] += 1   # C02's business
            return
        hier = Hier(scfg)
        for kind in WALKERS:
            r = product(G, entry_name(), hier, kind)
            acc.states += r.states
            acc.transitions += r.transitions
            acc.counters[f"products[{stage},{kind}]"] += 1
            if not r.violations and r.reached != set(G):
                r.violations.append(("path/unreached", f"original blocks never reached: {sorted(set(G) - r.reached)}", ()))
            for clause, detail, path in r.violations:
                acc.viol(PROP, f"{PROP}/{kind}/{clause}", detail, (g, stage, kind), site=stage,
                         case=graph_case(g, fam, stage, walker=kind, payload=payload,
                                         decisions=[list(p) for p in path]))
            acc.outcomes.add((r.states, r.transitions))
    # conformance legs: bind the region walker to real consumers (never reported as C01 violations)
    if len(g) <= opts.get("conform_max_blocks", 5) and payload == "basic" and get_labeling() is None:
        H = opts.get("conform_horizon", 5)
        for leg, fn in (("generated-code", generated_code_leg), ("simulator", simulator_leg)):
            n, mism, status = fn(g, H)
            acc.traces += n
            acc.counters[f"conformance[{leg}][{status}]"] += 1
            acc.counters[f"conformance[{leg}]_traces"] += n
            if mism:
                acc.counters[f"conformance[{leg}]_MISMATCH"] += len(mism)
                if len(acc.samples) < 10:
                    acc.samples.append({"conformance_mismatch": leg, "graph": [list(r) for r in g], "first": repr(mism[0])[:400]})
    if len(acc.samples) < 3 and len(g) >= 4:
        acc.samples.append({"family": fam, "graph": [list(r) for r in g], "stages": list(("J", "JL", "JLB")),
                            "walkers": list(WALKERS)})


def run(tier: str, seed: int):
    spec = graph_spec(tier)
    acc = sweep(__name__, spec, {"conform_max_blocks": 5 if tier == "quick" else 9, "conform_horizon": 5 if tier == "quick" else 6}, seed)
    for k, v in acc.counters.items():
        if k.endswith("_MISMATCH"):
            import sys
            sys.stderr.write(f"NOTE: {k} = {v}: the walker and a real consumer disagree (see evidence samples)\n")
    cov = {
        "rule": "every closed CFG of the listed families x stage prefixes J, JL, JLB x walkers {by-name, region-by-region}; "
                "product of original graph with restructured hierarchy and control-variable valuation explored to the fix-point",
        "bounds": {"E_max_blocks": spec["E"], "lists": {k: len(v) for k, v in spec["LISTS"].items()}, "fig": True},
        "instances": sum(v for k, v in acc.counters.items() if k.startswith("graphs[")),
    }
    return {"acc": acc, "coverage": cov, "assumptions": [
        "walker semantics (DESIGN 2.3) are the checker's reading of by-name and region-by-region execution",
        "instances on which a stage raises are skipped here and charged to C02",
        "traces_validated_against_impl = executions of SCFG2AST-generated code and of the repository's test Simulator whose trace of "
        "original blocks equals the region walker's prediction for the same decisions"]}


def replay(case) -> Acc:
    acc = Acc()
    g = tuple(tuple(r) for r in case["graph"])
    check_graph(g, case.get("family", "replay"), acc, {"payload": case.get("payload", "basic")})
    return acc
