"""Bounded exhaustive model checking of numba-scfg (see /verif/DESIGN.md).

Importing this package puts the repository under test first on sys.path
(``$VERIF_REPO`` or /repo), so that every check sees the current working tree,
and silences the DEBUG logging that ``numba_scfg.rendering`` switches on.
"""
import logging
import os
import sys

sys.dont_write_bytecode = True
REPO = os.environ.get("VERIF_REPO", "/repo")
VERIF = os.path.dirname(os.path.dirname(os.path.abspath(__file__)))
if sys.path[0] != REPO:
    sys.path.insert(0, REPO)
logging.disable(logging.CRITICAL)
if os.environ.get("VERIF_LIBCOV"):
    from . import libcov as _libcov
    _libcov.install(os.environ["VERIF_LIBCOV"], REPO)
sys.setrecursionlimit(10000)
