"""Parser for the DOT subset emitted by the graphviz package (C17)."""
from __future__ import annotations

import re
from typing import Dict, List, Optional, Tuple

TOKEN = re.compile(r'''
    \s+ |
    (?P<arrow>->) |
    (?P<punct>[{}\[\]=;,]) |
    (?P<quoted>"(?:[^"\\]|\\.)*") |
    (?P<id>[A-Za-z0-9_.\#\-\u0080-￿]+)
''', re.X | re.S)


class DotError(Exception):
    pass


def tokenize(src: str) -> List[Tuple[str, str]]:
    out = []
    pos = 0
    while pos < len(src):
        m = TOKEN.match(src, pos)
        if not m:
            raise DotError(f"cannot tokenize at {pos}: {src[pos:pos + 30]!r}")
        pos = m.end()
        if m.lastgroup is None:
            continue
        val = m.group(m.lastgroup)
        if m.lastgroup == "quoted":
            val = re.sub(r'\\(["\\])', r"\1", val[1:-1]) if False else val[1:-1].replace('\\"', '"')
            out.append(("id", val))
        else:
            out.append((m.lastgroup, val))
    return out


class Cluster:
    def __init__(self, name: Optional[str]):
        self.name = name
        self.attrs: Dict[str, str] = {}
        self.nodes: Dict[str, Dict[str, str]] = {}
        self.node_order: List[str] = []
        self.children: List["Cluster"] = []
        self.duplicate_nodes: List[str] = []


class Dot:
    def __init__(self):
        self.root = Cluster(None)
        self.edges: List[Tuple[str, str, Dict[str, str]]] = []


def parse(src: str) -> Dot:
    toks = tokenize(src)
    i = 0

    def peek(k=0):
        return toks[i + k] if i + k < len(toks) else ("eof", "")

    def eat(kind=None, val=None):
        nonlocal i
        t = peek()
        if (kind and t[0] != kind) or (val is not None and t[1] != val):
            raise DotError(f"expected {kind} {val}, got {t} at token {i}")
        i += 1
        return t

    def attrs():
        out = {}
        eat("punct", "[")
        while peek() != ("punct", "]"):
            k = eat("id")[1]
            eat("punct", "=")
            v = eat("id")[1]
            out[k] = v
            if peek() in (("punct", ","), ("punct", ";")):
                eat()
        eat("punct", "]")
        return out

    dot = Dot()
    t = eat("id")
    if t[1] not in ("digraph", "graph", "strict"):
        raise DotError("not a graph")
    if peek()[0] == "id":
        eat()
    eat("punct", "{")

    def body(cl: Cluster):
        while True:
            t = peek()
            if t == ("punct", "}"):
                eat()
                return
            if t[0] == "eof":
                raise DotError("unexpected end")
            if t == ("punct", ";"):
                eat()
                continue
            if t == ("id", "subgraph"):
                eat()
                name = None
                if peek()[0] == "id":
                    name = eat()[1]
                eat("punct", "{")
                child = Cluster(name)
                cl.children.append(child)
                body(child)
                continue
            a = eat("id")[1]
            if peek()[0] == "arrow":
                eat()
                b = eat("id")[1]
                at = attrs() if peek() == ("punct", "[") else {}
                dot.edges.append((a, b, at))
            elif peek() == ("punct", "="):
                eat()
                cl.attrs[a] = eat("id")[1]
                # further k=v pairs on the same statement
                while peek()[0] == "id" and peek(1) == ("punct", "="):
                    k = eat("id")[1]
                    eat("punct", "=")
                    cl.attrs[k] = eat("id")[1]
            elif peek() == ("punct", "["):
                at = attrs()
                if a in ("graph", "node", "edge"):
                    continue
                if a in cl.nodes:
                    cl.duplicate_nodes.append(a)
                cl.nodes[a] = at
                cl.node_order.append(a)
            else:
                if a in cl.nodes:
                    cl.duplicate_nodes.append(a)
                cl.nodes.setdefault(a, {})
                cl.node_order.append(a)
    body(dot.root)
    if peek()[0] != "eof":
        raise DotError("trailing tokens")
    return dot
