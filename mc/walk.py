"""Walkers and the product construction (DESIGN 2.3) - the heart of C01 / C06.

A walker gives operational meaning to a hierarchy.  ``product`` explores the product of the
ORIGINAL graph G with the hierarchy H plus control-variable valuation to the fix-point, so
every decision sequence of unbounded length is covered per instance.
"""
from __future__ import annotations

import collections
from typing import Dict, List, Optional, Tuple

from numba_scfg.core.datastructures.basic_block import (
    BasicBlock, RegionBlock, SyntheticAssignment, SyntheticBlock, SyntheticBranch,
    SyntheticExitingLatch,
)

from .hier import Hier


class WalkFail(Exception):
    def __init__(self, clause: str, detail: str):
        super().__init__(f"{clause}: {detail}")
        self.clause = clause
        self.detail = detail


class WName:
    """Flat walk by name: a region name means its header, recursively."""
    kind = "name"

    def __init__(self, hier: Hier):
        self.h = hier
        self.leaf_cache = hier.leaves()

    def start(self):
        try:
            head = self.h.top.find_head()
        except AssertionError:
            raise WalkFail("walk/no-unique-head", "top-level graph has no unique head")
        return self.goto(None, head, False)

    def block(self, pos) -> BasicBlock:
        return self.leaf_cache[pos]

    def goto(self, pos, target: str, is_back: bool):
        r = self.h.resolve_flat(target)
        if r is None:
            raise WalkFail("walk/dangling", f"target {target!r} (from {pos!r}) does not resolve to a block")
        return r


class WRegion:
    """Strict region-by-region walk using declared header / exiting / jump targets."""
    kind = "region"

    def __init__(self, hier: Hier):
        self.h = hier

    def start(self):
        try:
            head = self.h.top.find_head()
        except AssertionError:
            raise WalkFail("walk/no-unique-head", "top-level graph has no unique head")
        return self._enter((), self.h.top.graph, head)

    def _graph(self, stack):
        return stack[-1].subregion.graph if stack else self.h.top.graph

    def block(self, pos) -> BasicBlock:
        stack, leaf = pos
        return self._graph(stack)[leaf]

    def _enter(self, stack, graph, name):
        b = graph[name]
        stack = tuple(stack)
        hops = 0
        while isinstance(b, RegionBlock):
            if b.subregion is None or b.header is None or b.header not in b.subregion.graph:
                raise WalkFail("walk/header-missing",
                               f"region {b.name!r} declares header {b.header!r} which is not in its own graph")
            stack = stack + (b,)
            name = b.header
            b = b.subregion.graph[name]
            hops += 1
            if hops > 10000:
                raise WalkFail("walk/header-cycle", "region headers nest forever")
        return (stack, name)

    def goto(self, pos, target: str, is_back: bool):
        stack, cur = pos
        stack = list(stack)
        while True:
            graph = self._graph(stack)
            if target in graph:
                if is_back:
                    if not stack or stack[-1].kind != "loop" or stack[-1].header != target:
                        where = stack[-1].name if stack else "<top level>"
                        raise WalkFail("walk/backedge-not-loop-header",
                                       f"back edge to {target!r} lands in {where} which is not a loop region with that header")
                return self._enter(stack, graph, target)
            if not stack:
                raise WalkFail("walk/dangling", f"target {target!r} (from {pos[1]!r}) is not in any enclosing graph")
            R = stack[-1]
            if R.exiting != cur:
                raise WalkFail("walk/leave-not-exiting",
                               f"{cur!r} leaves region {R.name!r} towards {target!r} but the region's exiting block is {R.exiting!r}")
            if not is_back and target not in R._jump_targets:
                raise WalkFail("walk/target-not-declared",
                               f"region {R.name!r} is left towards {target!r} but declares jump targets {R._jump_targets!r}")
            cur = R.name
            stack.pop()


def _liveness(hier: Hier) -> Dict[str, frozenset]:
    """May-liveness of control variables at the entry of every leaf block of the flattened hierarchy (backward data flow over
    the by-name successor relation, back edges included).  Over-approximating the live set only costs states."""
    leaves = hier.leaves()
    succ, use, define = {}, {}, {}
    for name, b in leaves.items():
        ss = []
        for t in b._jump_targets:
            r = hier.resolve_flat(t)
            if r is not None:
                ss.append(r)
        succ[name] = ss
        use[name] = {b.variable} if isinstance(b, SyntheticBranch) else set()
        define[name] = set(b.variable_assignment) if isinstance(b, SyntheticAssignment) else set()
    live = {n: set(use[n]) for n in leaves}
    changed = True
    while changed:
        changed = False
        for n in leaves:
            out = set()
            for s in succ[n]:
                out |= live.get(s, set())
            new = use[n] | (out - define[n])
            if new != live[n]:
                live[n] = new
                changed = True
    return {n: frozenset(v) for n, v in live.items()}


def make_walker(kind: str, hier: Hier):
    return WName(hier) if kind == "name" else WRegion(hier)


class ProductResult:
    __slots__ = ("states", "transitions", "violations", "info", "synthetic_steps", "reached")

    def __init__(self):
        self.states = 0
        self.transitions = 0
        self.violations: List[Tuple[str, str, tuple]] = []   # (clause, detail, path)
        self.info = collections.Counter()
        self.synthetic_steps = 0
        self.reached = set()


def product(G: Dict[str, Tuple[str, ...]], entry: str, hier: Hier, kind: str,
            max_violations: int = 5) -> ProductResult:
    """Explore the product of original graph G with the walker over ``hier``.

    G maps original block name -> ordered successor names.  Violations carry the decision
    path (list of (block, successor index)) that reaches them.
    """
    res = ProductResult()
    W = make_walker(kind, hier)
    nleaves = max(1, len(hier.flat))
    live = _liveness(hier)

    def project(name, env, mon):
        """Forget control variables that are dead at original block ``name``: no path from here reads them before they are
        assigned again, so two states that differ only in them have the same futures (without this, k sequential loops with
        two exits each give 2^k valuations)."""
        lv = live.get(name)
        if lv is None or len(env) == len(lv) and all(v in lv for v in env):
            return env, mon
        return {v: x for v, x in env.items() if v in lv}, frozenset(t for t in mon if t[1] in lv)

    def viol(clause, detail, path):
        if len(res.violations) < max_violations:
            res.violations.append((clause, detail, tuple(path)))

    def run_to_original(pos, env, mon, path):
        """Follow synthetic blocks from pos until an original block or a stop.

        Returns (orig_name or None, pos, env, mon).  Raises WalkFail.
        """
        seen = set()
        while True:
            b = W.block(pos)
            name = b.name
            if name in G:
                return name, pos, env, mon
            if isinstance(b, RegionBlock) or not isinstance(b, SyntheticBlock):
                raise WalkFail("conserve/unknown-block", f"block {name!r} of type {type(b).__name__} is neither original nor synthetic")
            key = (pos if kind == "name" else (tuple(r.name for r in pos[0]), pos[1]), tuple(sorted(env.items())))
            if key in seen:
                raise WalkFail("walk/livelock", f"synthetic blocks cycle without reaching an original block at {name!r}")
            seen.add(key)
            res.synthetic_steps += 1
            jts = b._jump_targets
            if isinstance(b, SyntheticAssignment):
                env = dict(env)
                for v, val in b.variable_assignment.items():
                    env[v] = val
                    # the variable is fresh again for every latch reading it
                    mon = frozenset(x for x in mon if x[1] != v)
            if isinstance(b, SyntheticBranch):
                var = b.variable
                if var not in env:
                    raise WalkFail("ctrl/unset", f"{type(b).__name__} {name!r} reads {var!r} which no block on this path has assigned")
                val = env[var]
                if val not in b.branch_value_table:
                    raise WalkFail("ctrl/out-of-table", f"{type(b).__name__} {name!r} reads {var!r}={val!r}, not a key of {dict(b.branch_value_table)!r}")
                tgt = b.branch_value_table[val]
                if tgt not in jts:
                    raise WalkFail("ctrl/table-target-not-successor", f"{type(b).__name__} {name!r}: table sends {val!r} to {tgt!r} which is not among its jump targets {jts!r}")
                tag = (name, var)
                if tag in mon:
                    if isinstance(b, SyntheticExitingLatch):
                        raise WalkFail("ctrl/stale-latch", f"latch {name!r} reads {var!r} again without an assignment since it last ran")
                    res.info["stale_nonlatch_reads"] += 1
                mon = mon | {tag}
                pos = W.goto(pos, tgt, tgt in b.backedges)
                continue
            if len(jts) == 0:
                return None, pos, env, mon
            if len(jts) > 1:
                raise WalkFail("walk/steer", f"synthetic block {name!r} ({type(b).__name__}) has {len(jts)} successors and no control variable")
            pos = W.goto(pos, jts[0], jts[0] in b.backedges)

    def skey(state):
        b, pos, env, mon = state
        p = pos if kind == "name" else (tuple(r.name for r in pos[0]), pos[1])
        return (b, p, tuple(sorted(env.items())), mon)

    # initial state
    try:
        pos0 = W.start()
        o, pos0, env0, mon0 = run_to_original(pos0, {}, frozenset(), [])
    except WalkFail as e:
        viol(e.clause, e.detail, [])
        return res
    if o != entry:
        viol("path/entry", f"walk starts at original block {o!r}, the original entry is {entry!r}", [])
        return res
    init = (o, pos0, env0, mon0)
    seen = {skey(init)}
    queue = collections.deque([(init, ())])
    while queue:
        (b, pos, env, mon), path = queue.popleft()
        res.reached.add(b)
        blk = W.block(pos)
        succ = G[b]
        jts = blk._jump_targets
        if len(succ) == 0:
            # the original stops here: only the inserted common return may follow
            res.transitions += 1
            if len(jts) > 1:
                viol("path/stop", f"original exit {b!r} now has {len(jts)} successors", path)
                continue
            if len(jts) == 1:
                try:
                    p2 = W.goto(pos, jts[0], jts[0] in blk.backedges)
                    o2, p2, e2, m2 = run_to_original(p2, env, mon, path)
                except WalkFail as e:
                    viol(e.clause, e.detail + f" [after original exit {b!r}]", path)
                    continue
                if o2 is not None:
                    viol("path/stop", f"original exit {b!r} continues to original block {o2!r}", path)
            continue
        if len(jts) != len(succ):
            viol("path/arity", f"block {b!r} had {len(succ)} successors, now has jump targets {jts!r}", path)
            continue
        for i, want in enumerate(succ):
            res.transitions += 1
            step = path + ((b, i),)
            try:
                t = jts[i]
                p2 = W.goto(pos, t, t in blk.backedges)
                o2, p2, e2, m2 = run_to_original(p2, env, mon, step)
            except WalkFail as e:
                viol(e.clause, e.detail + f" [taking successor {i} of {b!r}]", step)
                continue
            if o2 is None:
                viol("path/stop", f"execution stops after successor {i} of {b!r}; the original continues at {want!r}", step)
                continue
            if o2 != want:
                viol("path/successor", f"successor {i} of {b!r} leads to {o2!r}; the original goes to {want!r}", step)
                continue
            e2, m2 = project(o2, e2, m2)
            nxt = (o2, p2, e2, m2)
            k = skey(nxt)
            if k not in seen:
                seen.add(k)
                queue.append((nxt, step))
    res.states = len(seen)
    return res


def follow(G, entry, hier: Hier, kind: str, decisions) -> List[str]:
    """Sequence of original blocks visited for one decision sequence (conformance legs)."""
    W = make_walker(kind, hier)
    out = []
    env: dict = {}
    pos = W.start()
    it = iter(decisions)

    def run(pos, env):
        steps = 0
        while True:
            b = W.block(pos)
            if b.name in G:
                return b.name, pos, env
            steps += 1
            if steps > 100000:
                raise WalkFail("walk/livelock", "too many synthetic steps")
            if isinstance(b, SyntheticAssignment):
                env = {**env, **b.variable_assignment}
            if isinstance(b, SyntheticBranch):
                tgt = b.branch_value_table[env[b.variable]]
                pos = W.goto(pos, tgt, tgt in b.backedges)
                continue
            if not b._jump_targets:
                return None, pos, env
            pos = W.goto(pos, b._jump_targets[0], b._jump_targets[0] in b.backedges)

    o, pos, env = run(pos, env)
    while o is not None:
        out.append(o)
        if len(out) > 5000:
            raise WalkFail("walk/livelock", "more than 5000 original blocks visited without needing a decision")
        blk = W.block(pos)
        jts = blk._jump_targets
        if not G[o]:
            break
        if len(jts) == 1:
            i = 0
        else:
            try:
                i = next(it)
            except StopIteration:
                break
        pos = W.goto(pos, jts[i], jts[i] in blk.backedges)
        o, pos, env = run(pos, env)
    return out
