"""Check driver: runs a property module, filters known findings, writes evidence and replays."""
from __future__ import annotations

import collections
import hashlib
import importlib
import json
import os
import subprocess
import sys
import time
from typing import Any, Dict, List, Optional

from . import VERIF, REPO
from .kernel import HarnessError

LEVEL = "model_checking"
MAX_LINES = 20


class Acc:
    """Mergeable accumulator returned by workers."""

    def __init__(self):
        self.counters = collections.Counter()
        self.states = 0
        self.transitions = 0
        self.traces = 0
        self.viols: List[dict] = []          # {fp, key, clause, detail, case?}
        self.samples: List[Any] = []
        self.outcomes = set()
        self.capped = False

    def viol(self, prop: str, clause: str, detail: str, key_parts, case: Optional[dict] = None,
             site: str = "", shape: str = ""):
        fp = "|".join((clause, site, shape))
        from .families import get_labeling
        lab = get_labeling()
        key = hashlib.sha256(repr((clause, key_parts) if lab is None else (clause, key_parts, lab)).encode()).hexdigest()[:16]
        v = {"property": prop, "fp": fp, "key": key, "clause": clause, "detail": detail}
        nsame = sum(1 for x in self.viols if x["fp"] == fp and "case" in x)
        if case is not None and nsame < 3:
            v["case"] = case
        self.viols.append(v)

    def merge(self, other: "Acc"):
        self.counters.update(other.counters)
        self.states += other.states
        self.transitions += other.transitions
        self.traces += other.traces
        have = collections.Counter(x["fp"] for x in self.viols if "case" in x)
        for v in other.viols:
            if "case" in v and have[v["fp"]] >= 3:
                v = {k: val for k, val in v.items() if k != "case"}
            elif "case" in v:
                have[v["fp"]] += 1
            self.viols.append(v)
        room = 12 - len(self.samples)
        if room > 0:
            self.samples.extend(other.samples[:room])
        if len(self.outcomes) < 100000:
            self.outcomes |= other.outcomes
        self.capped = self.capped or other.capped


# ---------------------------------------------------------------------------------------
# known findings

def load_known(prop: str):
    """Parse /verif/known_findings.txt; returns list of open findings for ``prop``.

    open:  property=<id> fp=<fingerprint> witnesses=<file|*> :: <what fails>
    fixed: property=<id> <commit> <what failed>          (suppresses nothing)
    """
    path = os.path.join(VERIF, "known_findings.txt")
    out = []
    if not os.path.exists(path):
        return out
    for line in open(path):
        line = line.strip()
        if not line.startswith("open:"):
            continue
        head, _, what = line[len("open:"):].partition("::")
        fields = {}
        for tok in head.split():
            if "=" in tok:
                k, _, v = tok.partition("=")
                fields[k] = v
        if fields.get("property") != prop:
            continue
        wit = None
        wfile = fields.get("witnesses")
        if wfile and wfile != "*":
            wit = set()
            p = os.path.join(VERIF, wfile)
            if os.path.exists(p):
                for w in open(p):
                    w = w.strip()
                    if w and not w.startswith("#"):
                        wit.add(w.split()[0])
        out.append({"fp": fields.get("fp", ""), "witnesses": wit, "what": what.strip(), "hit": 0})
    return out


def write_evidence(prop: str, tier: str, seed: int, coverage: dict, assumptions: List[str],
                   wall: float, violations: int):
    evdir = os.environ.get("VERIF_EVIDENCE_DIR") or os.path.join(VERIF, "evidence")
    os.makedirs(evdir, exist_ok=True)
    ev = {"property_id": prop, "tier": tier, "seed": seed, "level": LEVEL, "coverage": coverage,
          "assumptions": assumptions, "wall_s": round(wall, 3), "violations": violations}
    path = os.path.join(evdir, f"{prop}.json")
    tmp = path + ".tmp"
    with open(tmp, "w") as f:
        json.dump(ev, f, indent=1, default=str, sort_keys=True)
    os.replace(tmp, path)


def reproduction_snippet(case: dict, clause: str, detail: str) -> str:
    """A plain function that re-creates the failing input with nothing but the library (the oracle stays in mc)."""
    head = f"# {clause}\n# {detail[:300]}\n"
    if isinstance(case.get("graph"), list):
        lab = case.get("labeling")
        nm = (lambda i: f"{lab['prefix']}{lab['names'][i]}") if lab else str
        order = lab["insertion_order"] if lab else range(len(case["graph"]))
        g = {nm(i): [nm(t) for t in case["graph"][i]] for i in order}
        stages = {"0": [], "J": ["join_returns"], "JL": ["join_returns", "restructure_loop"]}.get(
            str(case.get("stage")), ["join_returns", "restructure_loop", "restructure_branch"])
        body = "".join(f"    scfg.{st}()\n" for st in stages)
        return (head + "def test_replay():\n    from numba_scfg.core.datastructures.scfg import SCFG\n"
                "    from numba_scfg.core.datastructures.basic_block import BasicBlock\n"
                f"    g = {g!r}\n"
                + ("    # NOTE: in the failing run the graph was constructed with name_gen= of a generator already used by another graph\n"
                   if (case.get("labeling") or {}).get("generator") else "") +
                "    scfg = SCFG(graph={n: BasicBlock(name=n, _jump_targets=tuple(t)) for n, t in g.items()})\n"
                + body + "    return scfg   # inspect: scfg.graph, RegionBlock.header/exiting/subregion, ...\n")
    if isinstance(case.get("source"), str):
        return (head + "def test_replay():\n    import ast\n"
                "    from numba_scfg.core.datastructures.ast_transforms import AST2SCFG, SCFG2AST\n"
                f"    src = {case['source']!r}\n"
                "    scfg = AST2SCFG(src)\n    scfg.restructure()\n    return ast.unparse(SCFG2AST(src, scfg))\n")
    return head


def write_replay(prop: str, v: dict) -> str:
    d = os.path.join(os.environ.get("VERIF_REPLAY_DIR") or os.path.join(VERIF, "replays"), prop)
    os.makedirs(d, exist_ok=True)
    path = os.path.join(d, f"{v['key']}.json")
    with open(path, "w") as f:
        json.dump({"property": prop, "fingerprint": v["fp"], "clause": v["clause"], "detail": v["detail"],
                   "case": v.get("case", {}), "how": f"cd /verif && /venv/bin/python -m mc replay {path}",
                   "reproduce_with_library_only": reproduction_snippet(v.get("case", {}), v["clause"], v["detail"])},
                  f, indent=1, default=str)
    return path


def confirm_replay(path: str) -> Optional[bool]:
    """Re-run one failing case in a fresh process; True = fails again."""
    env = dict(os.environ)
    env["PYTHONHASHSEED"] = "0"
    try:
        p = subprocess.run([sys.executable, "-m", "mc", "replay", path], cwd=VERIF, env=env,
                           capture_output=True, text=True, timeout=600)
    except subprocess.TimeoutExpired:
        return None
    if p.returncode == 1:
        return True
    if p.returncode == 0:
        return False
    sys.stderr.write(p.stdout + p.stderr)
    return None


def rerun_has_fingerprint(prop: str, tier: str, seed: int, fp: str) -> bool:
    import tempfile
    env = dict(os.environ)
    env.update(VERIF_NO_CONFIRM="1", VERIF_SEED=str(seed), PYTHONHASHSEED="0")
    with tempfile.TemporaryDirectory(prefix="mc_rerun_") as d:
        env["VERIF_EVIDENCE_DIR"] = os.path.join(d, "ev")
        env["VERIF_REPLAY_DIR"] = os.path.join(d, "rp")
        try:
            p = subprocess.run([sys.executable, "-m", "mc", "check", prop, "--tier", tier], cwd=VERIF, env=env,
                               capture_output=True, text=True, timeout=7200)
        except subprocess.TimeoutExpired:
            return False
    return f"fingerprint={fp} " in p.stdout


def run_check(prop: str, tier: str, seed: int) -> int:
    mod = importlib.import_module(f"mc.props.{prop.lower()}")
    t0 = time.time()
    res = mod.run(tier, seed)          # -> dict(acc=Acc, coverage=dict, assumptions=list)
    acc: Acc = res["acc"]
    known = load_known(prop)
    if os.environ.get("VERIF_DUMP_VIOLS"):
        # maintenance aid (tools/snapshot_witnesses.sh): list every violating instance of this run
        with open(os.environ["VERIF_DUMP_VIOLS"], "a") as f:
            for v in acc.viols:
                f.write(f"{v['fp']}\t{v['key']}\t{tier}\t{v['detail'][:100]}\n")
    unknown: Dict[str, List[dict]] = collections.OrderedDict()
    for v in acc.viols:
        hit = None
        for k in known:
            if k["fp"] == v["fp"] and (k["witnesses"] is None or v["key"] in k["witnesses"]):
                hit = k
                break
        if hit is not None:
            hit["hit"] += 1
        else:
            unknown.setdefault(v["fp"], []).append(v)
    cov = dict(res["coverage"])
    cov.setdefault("states", acc.states)
    cov.setdefault("transitions", acc.transitions)
    cov.setdefault("traces_validated_against_impl", acc.traces)
    cov.setdefault("samples", acc.samples[:12] or ["<no sample recorded>"])
    cov.setdefault("exhaustive", not acc.capped)
    cov["counters"] = dict(sorted(acc.counters.items()))
    cov["distinct_outcomes"] = len(acc.outcomes)
    cov["violating_instances"] = len(acc.viols)
    cov["known_findings_hit"] = {k["fp"]: k["hit"] for k in known if k["hit"]}
    cov["unlisted_violation_fingerprints"] = {fp: len(vs) for fp, vs in unknown.items()}
    cov["repo"] = REPO
    rc = 0
    lines = 0
    for k in known:
        if k["hit"]:
            print(f"KNOWN-FINDING: property={prop} {k['what']} [{k['hit']} instance(s), fp={k['fp']}]")
        else:
            sys.stderr.write(f"note: open finding not hit in this run (stale entry?): property={prop} fp={k['fp']}\n")
    for fp, vs in unknown.items():
        rc = 1
        if lines >= MAX_LINES:
            continue
        withcase = [v for v in vs if "case" in v] or vs
        v = withcase[0]
        path = write_replay(prop, v)
        if "case" in v and os.environ.get("VERIF_NO_CONFIRM") != "1":
            again = confirm_replay(path)
            if again is False:
                # Not reproducible from the single case.  Either the harness is nondeterministic (our bug) or the library
                # carries state from one call to the next (its bug).  Decide by re-running the whole check in a fresh process.
                if rerun_has_fingerprint(prop, tier, seed, fp):
                    print(f"VIOLATION property={prop} replay={path}")
                    print(f"  fingerprint={fp} instances={len(vs)} first: {v['detail']}")
                    print("  note: fails only after other inputs were processed in the same interpreter (state leaks between calls); "
                          "it reproduces when the whole check is re-run, not from the single case")
                    lines += 1
                    continue
                sys.stderr.write(f"HARNESS ERROR: violation {fp} did not reproduce from {path} in a fresh process, nor in a re-run\n")
                write_evidence(prop, tier, seed, cov, res.get("assumptions", []), time.time() - t0, len(acc.viols))
                return 2
        print(f"VIOLATION property={prop} replay={path}")
        print(f"  fingerprint={fp} instances={len(vs)} first: {v['detail']}")
        lines += 1
    write_evidence(prop, tier, seed, cov, res.get("assumptions", []), time.time() - t0,
                   sum(len(vs) for vs in unknown.values()))
    print(f"{prop} {tier}: states={cov['states']} transitions={cov['transitions']} "
          f"traces={cov['traces_validated_against_impl']} violations={sum(len(v) for v in unknown.values())} "
          f"known={sum(k['hit'] for k in known)} wall={time.time() - t0:.1f}s")
    return rc


def run_replay(path: str) -> int:
    data = json.load(open(path))
    prop = data["property"]
    mod = importlib.import_module(f"mc.props.{prop.lower()}")
    lab = (data.get("case") or {}).get("labeling")
    if lab:
        from .families import set_labeling
        set_labeling((lab["prefix"], lab["names"], lab["insertion_order"], lab.get("generator")))
    acc: Acc = mod.replay(data["case"])
    same = [v for v in acc.viols if v["clause"] == data.get("clause")] or acc.viols
    for v in same[:5]:
        print(f"still fails: {v['clause']}: {v['detail']}")
    if not same:
        print("case no longer fails")
    return 1 if same else 0
