"""Static census of a regenerated ast.FunctionDef against the restructured hierarchy (C10)."""
from __future__ import annotations

import ast
import collections
import re

from numba_scfg.core.datastructures.basic_block import (
    PythonASTBlock, SyntheticAssignment, SyntheticBranch, SyntheticExitingLatch,
)

from .hier import Hier

CTRL_VAR = re.compile(r"^__scfg_\w+_var_\d+__$")
RESERVED = re.compile(r"^__scfg_\w+__$")
RETVAL = "__scfg_return_value__"


def snapshot_blocks(scfg):
    """Identity snapshot of the AST blocks before restructuring: name -> (tree items, nsucc)."""
    snap = {}
    for name, b in scfg.graph.items():
        if isinstance(b, PythonASTBlock):
            snap[name] = (list(b.tree), len(b._jump_targets))
    return snap


def census(snap, scfg, fdef: ast.FunctionDef, original_names: set, report):
    hier = Hier(scfg)
    nodes = list(ast.walk(fdef))
    occ = collections.Counter(id(n) for n in nodes)
    if_tests = collections.Counter(id(n.test) for n in nodes if isinstance(n, ast.If))
    retval_assigns = [n for n in nodes if isinstance(n, ast.Assign) and len(n.targets) == 1
                      and isinstance(n.targets[0], ast.Name) and n.targets[0].id == RETVAL]
    retval_values = collections.Counter(id(n.value) for n in retval_assigns)
    none_returns_expected = 0
    for name, (tree, nsucc) in snap.items():
        items = list(tree)
        if nsucc == 2 and items:
            test = items.pop()
            t = test.value if isinstance(test, ast.Expr) else test
            n = if_tests.get(id(t), 0)
            if n != 1:
                report("test-count", f"test `{ast.unparse(t)}` of block {name} is the condition of {n} if-statements")
            if occ.get(id(t), 0) != 1:
                report("test-occurrences", f"test `{ast.unparse(t)}` of block {name} occurs {occ.get(id(t), 0)} times in the output")
        for st in items:
            if isinstance(st, ast.Return):
                blk = hier.flat[name].block if name in hier.flat else None
                gained = blk is not None and len(blk._jump_targets) == 1
                if gained:
                    if st.value is None:
                        none_returns_expected += 1
                    else:
                        n = retval_values.get(id(st.value), 0)
                        if n != 1:
                            report("return-value-count", f"`{ast.unparse(st)}` of block {name} is assigned to the return variable {n} times")
                        if occ.get(id(st.value), 0) != 1:
                            report("return-value-occurrences", f"value of `{ast.unparse(st)}` occurs {occ.get(id(st.value), 0)} times")
                else:
                    if occ.get(id(st), 0) != 1:
                        report("statement-count", f"`{ast.unparse(st)}` of block {name} occurs {occ.get(id(st), 0)} times in the output")
                continue
            n = occ.get(id(st), 0)
            if n != 1:
                what = ast.unparse(st) if isinstance(st, ast.AST) else repr(st)
                report("statement-count", f"`{what}` of block {name} occurs {n} times in the output")
    got_none = sum(1 for a in retval_assigns if isinstance(a.value, ast.Constant) and a.value.value is None)
    if got_none != none_returns_expected:
        report("return-none-count", f"{none_returns_expected} bare returns were redirected to the common exit but {got_none} `{RETVAL} = None` assignments exist")
    # synthetic assignments: multiset equality
    want = collections.Counter()
    latches = collections.Counter()
    branch_tests = collections.Counter()
    for name, b in hier.leaves().items():
        if isinstance(b, SyntheticAssignment):
            for v, val in b.variable_assignment.items():
                want[(v, val)] += 1
        elif isinstance(b, SyntheticExitingLatch):
            latches[b.variable] += 1
        elif isinstance(b, SyntheticBranch):
            branch_tests[b.variable] += max(0, len(b._jump_targets) - 1)
    got = collections.Counter()
    got_latch = collections.Counter()
    got_tests = collections.Counter()
    for n in nodes:
        if isinstance(n, ast.Assign) and len(n.targets) == 1 and isinstance(n.targets[0], ast.Name):
            tid = n.targets[0].id
            if CTRL_VAR.match(tid) and isinstance(n.value, ast.Constant):
                got[(tid, n.value.value)] += 1
            if isinstance(n.value, ast.UnaryOp) and isinstance(n.value.op, ast.Not) and isinstance(n.value.operand, ast.Name) \
                    and tid.startswith("__scfg_loop_cont_"):
                got_latch[n.value.operand.id] += 1
        if isinstance(n, ast.Compare) and isinstance(n.left, ast.Name) and CTRL_VAR.match(n.left.id) \
                and len(n.ops) == 1 and isinstance(n.ops[0], ast.In):
            got_tests[n.left.id] += 1
    if got != want:
        missing = want - got
        extra = got - want
        report("synthetic-assignment-multiset", f"control-variable assignments differ: missing {dict(missing)}, duplicated/extra {dict(extra)}")
    if got_latch != latches:
        report("latch-count", f"loop-continue updates per variable {dict(got_latch)} != exiting latches {dict(latches)}")
    if got_tests != branch_tests:
        report("branch-test-count", f"if-cascade tests per variable {dict(got_tests)} != expected {dict(branch_tests)}")
    # hygiene
    out_names = {n.id for n in nodes if isinstance(n, ast.Name)}
    bad = sorted(x for x in out_names - original_names if not RESERVED.match(x))
    if bad:
        report("hygiene/" + ",".join(bad), f"output introduces names outside the reserved namespace: {bad}")
    # validity
    try:
        text = ast.unparse(fdef)
    except Exception as e:  # noqa: BLE001
        report("unparse-fails", f"{type(e).__name__}: {e}")
        return None
    try:
        compile(text, "<regenerated>", "exec")
    except SyntaxError as e:
        report("compile-fails", f"SyntaxError: {e}")
    return text
