"""Reference CFG of a code object computed from ``dis`` metadata alone (C09)."""
from __future__ import annotations

import dis
import types
from typing import Dict, List, Optional, Tuple

from .kernel import HarnessError

UNCOND = {"JUMP_FORWARD", "JUMP_BACKWARD", "JUMP_BACKWARD_NO_INTERRUPT", "JUMP_ABSOLUTE", "JUMP", "JUMP_NO_INTERRUPT"}
COND_PREFIXES = ("POP_JUMP_", "JUMP_IF_", "FOR_ITER")
OUT_OF_DOMAIN_OPS = {"RAISE_VARARGS", "RERAISE", "YIELD_VALUE", "YIELD_FROM", "SEND", "RETURN_GENERATOR", "GET_AWAITABLE",
                     "GET_AITER", "GET_ANEXT", "END_ASYNC_FOR", "BEFORE_WITH", "BEFORE_ASYNC_WITH", "SETUP_FINALLY",
                     "SETUP_WITH", "SETUP_ASYNC_WITH", "PUSH_EXC_INFO", "POP_EXCEPT", "CHECK_EXC_MATCH", "CHECK_EG_MATCH",
                     "WITH_EXCEPT_START", "CLEANUP_THROW", "SETUP_CLEANUP", "GEN_START", "ASYNC_GEN_WRAP"}


def jump_opcodes() -> Dict[str, int]:
    return {dis.opname[op]: op for op in set(dis.hasjrel) | set(dis.hasjabs) if op < 256 and not dis.opname[op].startswith("<")}


def classify(opname: str) -> str:
    """uncond | cond | term | plain   (raises HarnessError for an unclassifiable jump opcode)."""
    if opname.startswith("RETURN_") and opname != "RETURN_GENERATOR":
        return "term"
    if opname in jump_opcodes() or opname in UNCOND:
        if opname in UNCOND:
            return "uncond"
        if opname.startswith(COND_PREFIXES):
            return "cond"
        if opname in OUT_OF_DOMAIN_OPS:
            return "ood"
        raise HarnessError(f"jump opcode {opname} of this interpreter is not classified by the reference")
    return "plain"


def completeness_guard():
    for name in jump_opcodes():
        classify(name)


def in_domain(code: types.CodeType) -> Optional[str]:
    """None if the code object is in C09's domain, else the reason."""
    if getattr(code, "co_exceptiontable", b""):
        return "exception-table"
    if code.co_flags & (0x20 | 0x80 | 0x100 | 0x200):   # generator, coroutine, iterable coroutine, async generator
        return "generator"
    for ins in dis.get_instructions(code):
        if ins.opname in OUT_OF_DOMAIN_OPS:
            return f"op:{ins.opname}"
    return None


def reference(code) -> Tuple[List[dis.Instruction], List[Tuple[int, ...]], List[bool]]:
    """instructions, per-instruction successor instruction indices (ordered: fall-through, target), leader flags."""
    ins = list(dis.get_instructions(code))
    index = {i.offset: k for k, i in enumerate(ins)}
    succ: List[Tuple[int, ...]] = []
    leader = [False] * len(ins)
    if ins:
        leader[0] = True
    for k, i in enumerate(ins):
        kind = classify(i.opname)
        if kind == "term":
            succ.append(())
            if k + 1 < len(ins):
                leader[k + 1] = True
        elif kind == "uncond":
            if i.argval not in index:
                raise HarnessError(f"jump target {i.argval} of {i.opname}@{i.offset} is not an instruction")
            succ.append((index[i.argval],))
            leader[index[i.argval]] = True
            if k + 1 < len(ins):
                leader[k + 1] = True
        elif kind == "cond":
            if i.argval not in index:
                raise HarnessError(f"jump target {i.argval} of {i.opname}@{i.offset} is not an instruction")
            if k + 1 >= len(ins):
                raise HarnessError("conditional jump is the last instruction")
            succ.append((k + 1, index[i.argval]))
            leader[index[i.argval]] = True
            leader[k + 1] = True
        else:
            succ.append((k + 1,) if k + 1 < len(ins) else ())
    return ins, succ, leader


def compare(code, scfg, report):
    """Compare the library's graph with the reference.  report(clause, detail)."""
    from numba_scfg.core.datastructures.basic_block import PythonBytecodeBlock
    ins, succ, leader = reference(code)
    for b in scfg.graph.values():
        if not isinstance(b, PythonBytecodeBlock):
            report("block-type", f"block {b.name} is a {type(b).__name__}, not a bytecode block")
            return
    blocks = sorted(scfg.graph.values(), key=lambda b: b.begin)
    if not blocks:
        report("no-blocks", "the graph is empty")
        return
    if blocks[0].begin != 0:
        report("partition/first-begin", f"first block begins at {blocks[0].begin}")
    # membership by instruction
    owner: Dict[int, List[int]] = {}
    members: List[List[int]] = [[] for _ in blocks]
    for k, i in enumerate(ins):
        for bi, b in enumerate(blocks):
            if b.begin <= i.offset < b.end:
                owner.setdefault(k, []).append(bi)
                members[bi].append(k)
    for k, i in enumerate(ins):
        n = len(owner.get(k, []))
        if n == 0:
            report("partition/gap", f"instruction {i.opname}@{i.offset} lies in no block")
            return
        if n > 1:
            report("partition/overlap", f"instruction {i.opname}@{i.offset} lies in {n} blocks")
            return
    for bi, b in enumerate(blocks):
        if not members[bi]:
            report("partition/empty-block", f"block {b.name} [{b.begin},{b.end}) contains no instruction")
            return
        if bi + 1 < len(blocks) and b.end != blocks[bi + 1].begin:
            report("partition/not-contiguous", f"block {b.name} ends at {b.end}, next begins at {blocks[bi + 1].begin}")
        if b.begin >= b.end:
            report("partition/empty-range", f"block {b.name} has range [{b.begin},{b.end})")
    byname = {b.name: bi for bi, b in enumerate(blocks)}
    blk_of = {k: owner[k][0] for k in owner}
    for bi, b in enumerate(blocks):
        ks = members[bi]
        # enter only at the first instruction
        for k in ks[1:]:
            if leader[k]:
                why = "a jump target or follows a jump/return"
                report("entry/mid-block", f"{ins[k].opname}@{ins[k].offset} is {why} but lies in the middle of block {b.name} [{b.begin},{b.end})")
                return
        # leave only after the last instruction
        for k in ks[:-1]:
            kind = classify(ins[k].opname)
            if kind in ("cond", "uncond", "term"):
                report("exit/mid-block", f"{ins[k].opname}@{ins[k].offset} ({kind}) is not the last instruction of block {b.name} [{b.begin},{b.end})")
                return
        last = ks[-1]
        want = tuple(blk_of[t] for t in succ[last])
        got = []
        for t in b._jump_targets:
            if t not in byname:
                report("successors/dangling", f"block {b.name} names {t!r} which is not a block")
                return
            got.append(byname[t])
        if tuple(got) != want:
            report("successors/differ", f"block {b.name} ending in {ins[last].opname}@{ins[last].offset} has successors "
                                        f"{[blocks[g].name for g in got]}, the bytecode says {[blocks[w].name for w in want]}")
        if b.backedges:
            report("successors/backedges", f"front end declared back edges {b.backedges}")
