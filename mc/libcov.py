"""Which lines of the library do the checks execute?  (maintenance aid, not part of any check)

With VERIF_LIBCOV=<dir> every process of a check records the (file, line) pairs of library code it executes
(sys.monitoring LINE events, disabled per location after the first hit, so the overhead is small) and writes them to
<dir>/<pid>.txt.  ``python -m mc.libcov report <dir>`` lists the executable library lines that no process reached: a line
the machinery never executes is a line it cannot say anything about.
"""
from __future__ import annotations

import os
import sys

_HITS = set()
_DIR = None
_ROOT = None


def install(directory: str, repo: str):
    global _DIR, _ROOT
    _DIR = directory
    _ROOT = os.path.join(os.path.realpath(repo), "numba_scfg") + os.sep
    os.makedirs(directory, exist_ok=True)
    mon = sys.monitoring
    tool = mon.COVERAGE_ID
    try:
        mon.use_tool_id(tool, "mc.libcov")
    except ValueError:
        return

    def on_line(code, line):
        fn = code.co_filename
        if fn.startswith(_ROOT) and "/tests/" not in fn:
            _HITS.add((fn[len(_ROOT):], line))
        return mon.DISABLE
    mon.register_callback(tool, mon.events.LINE, on_line)
    mon.set_events(tool, mon.events.LINE)
    import atexit
    atexit.register(dump)


def dump():
    if _DIR is None:
        return
    path = os.path.join(_DIR, f"{os.getpid()}.txt")
    with open(path + ".tmp", "w") as f:
        for fn, line in sorted(_HITS):
            f.write(f"{fn}:{line}\n")
    os.replace(path + ".tmp", path)


def executable_lines(repo: str):
    root = os.path.join(os.path.realpath(repo), "numba_scfg")
    out = {}
    for d, _, files in os.walk(root):
        if "/tests" in d:
            continue
        for fn in files:
            if not fn.endswith(".py"):
                continue
            path = os.path.join(d, fn)
            rel = path[len(root) + 1:]
            code = compile(open(path).read(), path, "exec")
            lines = set()
            stack = [code]
            while stack:
                c = stack.pop()
                for _, _, ln in c.co_lines():
                    if ln is not None:
                        lines.add(ln)
                for k in c.co_consts:
                    if hasattr(k, "co_lines"):
                        stack.append(k)
            out[rel] = lines
    return out


def report(directory: str, repo: str):
    hits = set()
    for fn in os.listdir(directory):
        if fn.endswith(".txt"):
            for ln in open(os.path.join(directory, fn)):
                f, _, n = ln.strip().rpartition(":")
                hits.add((f, int(n)))
    exe = executable_lines(repo)
    root = os.path.join(os.path.realpath(repo), "numba_scfg")
    total = miss = 0
    for rel in sorted(exe):
        src = open(os.path.join(root, rel)).read().split("\n")
        missing = sorted(n for n in exe[rel] if (rel, n) not in hits)
        total += len(exe[rel])
        miss += len(missing)
        print(f"== {rel}: {len(exe[rel]) - len(missing)}/{len(exe[rel])} executable lines reached")
        for n in missing:
            print(f"   {n:5d}  {src[n - 1].rstrip()[:110]}")
    print(f"TOTAL reached {total - miss}/{total}")


if __name__ == "__main__":
    if len(sys.argv) >= 3 and sys.argv[1] == "report":
        report(sys.argv[2], os.environ.get("VERIF_REPO", "/repo"))
