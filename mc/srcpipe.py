"""Source pipeline: AST2SCFG -> restructure -> SCFG2AST -> unparse -> compile, and comparison runs."""
from __future__ import annotations

import ast
from typing import Any, Callable, Optional, Tuple

from .env import Env, compile_fn, execute
from .kernel import Chooser, DfsStats, StopExploration, dfs_answers, guarded
from .sweep import exc_fingerprint


class Pipe:
    __slots__ = ("src", "status", "stage", "exc_type", "site", "scfg", "fdef", "text", "orig_tree", "msg")

    def __init__(self, src):
        self.src = src
        self.status = "ok"     # ok | refused | error
        self.stage = ""
        self.exc_type = ""
        self.site = ""
        self.msg = ""
        self.scfg = None
        self.fdef = None
        self.text = None
        self.orig_tree = None


def roundtrip(src: str, upto: str = "compile") -> Pipe:
    from numba_scfg.core.datastructures.ast_transforms import AST2SCFGTransformer, SCFG2ASTTransformer
    p = Pipe(src)
    stage = "parse"
    try:
        tree = ast.parse(src).body
        p.orig_tree = tree
        stage = "AST2SCFG"
        # hand the parsed tree in so that node identities are known to the census (C08/C10)
        tr = AST2SCFGTransformer(tree)
        scfg = guarded(tr.transform_to_SCFG)
        p.scfg = scfg
        if upto == "AST2SCFG":
            return p
        stage = "restructure"
        guarded(scfg.restructure)
        if upto == "restructure":
            return p
        stage = "SCFG2AST"
        p.fdef = guarded(SCFG2ASTTransformer().transform, original=tree[0], scfg=scfg)
        stage = "unparse"
        p.text = ast.unparse(p.fdef)
        stage = "compile"
        compile(p.text, "<transformed>", "exec")
    except NotImplementedError as e:
        p.status, p.stage, p.exc_type, p.msg = "refused", stage, "NotImplementedError", str(e)
        _, p.site = exc_fingerprint(e)
    except RecursionError as e:
        p.status, p.stage, p.exc_type, p.site = "error", stage, "RecursionError", "recursion"
    except Exception as e:  # noqa: BLE001
        p.status, p.stage = "error", stage
        p.exc_type, p.site = exc_fingerprint(e)
        p.msg = str(e)[:200]
    return p


def compare_functions(f1: Callable, env1: Env, f2: Callable, env2: Env, horizon: int,
                      on_diff: Callable[[tuple, tuple, tuple], None], bound: Optional[int] = None) -> DfsStats:
    """K-DFS over all answer sequences of f1; f2 is run against the same answers."""

    def run(ch: Chooser):
        return execute(f1, env1, ch)

    def on_run(ch: Chooser, obs):
        ch2 = Chooser(tuple(ch.choices), horizon)
        obs2 = execute(f2, env2, ch2)
        st.outcomes.add(obs[1][0] if obs[1][0] != "ret" else "ret")
        if obs[1] == ("cut",):
            st.horizon_cuts += 1
            # both must agree up to the cut
            if obs2[1] != ("cut",) or obs2[0] != obs[0]:
                on_diff(tuple(ch.choices), obs, obs2)
                raise StopExploration()     # one witness per program; a diverging program can be very slow to run
            return
        if obs2 != obs:
            on_diff(tuple(ch.choices), obs, obs2)
            raise StopExploration()

    st = DfsStats()
    st2 = dfs_answers(run, on_run, bound_deviations=bound, horizon=horizon)
    st2.horizon_cuts = st.horizon_cuts
    st2.outcomes = st.outcomes
    return st2
