"""Input families (DESIGN section 3).

A graph is a tuple of successor tuples: G[i] = ordered successors of block i; block 0 is the
entry.  Names in the library are str(i).
"""
from __future__ import annotations

import ast
import itertools
import os
import re
from typing import Dict, Iterator, List, Optional, Sequence, Tuple

Graph = Tuple[Tuple[int, ...], ...]


# ---------------------------------------------------------------------------------------
# E(n): all closed CFGs with exactly n blocks, one per isomorphism class

def _can_reach_exit(g: Sequence[Tuple[int, ...]]) -> bool:
    n = len(g)
    ok = [len(s) == 0 for s in g]
    if not any(ok):
        return False
    changed = True
    while changed:
        changed = False
        for i in range(n):
            if not ok[i] and any(ok[j] for j in g[i]):
                ok[i] = True
                changed = True
    return all(ok)


def _succ_options(i: int, nxt: int, n: int, maxdeg: int = 2):
    """Successor tuples allowed for node i when ``nxt`` labels are in use.

    BFS-canonical: a not-yet-labelled successor must receive label ``nxt`` (then nxt+1).
    The entry (0) never is a target.  Successors are pairwise distinct.
    """
    yield (), nxt
    known = range(1, nxt)
    # one successor
    for a in known:
        yield (a,), nxt
    if nxt < n:
        yield (nxt,), nxt + 1
    if maxdeg < 2:
        return
    for a in known:
        for b in known:
            if a != b:
                yield (a, b), nxt
        if nxt < n:
            yield (a, nxt), nxt + 1
    if nxt < n:
        for b in known:
            yield (nxt, b), nxt + 1
        if nxt + 1 < n:
            yield (nxt, nxt + 1), nxt + 2


def enum_closed(n: int, prefix: Tuple[Tuple[int, ...], ...] = ()) -> Iterator[Graph]:
    """All closed CFGs with exactly n blocks whose first len(prefix) rows equal prefix."""
    rows: List[Tuple[int, ...]] = []

    def nxt_after(rows_):
        m = 1
        for r in rows_:
            for x in r:
                if x >= m:
                    m = x + 1
        return m

    def rec(i: int, nxt: int):
        if i == n:
            if nxt == n and _can_reach_exit(rows):
                yield tuple(rows)
            return
        if i >= nxt:  # node i would be unreachable
            return
        if i < len(prefix):
            opts = [(o, nn) for o, nn in _succ_options(i, nxt, n) if o == prefix[i]]
        else:
            opts = _succ_options(i, nxt, n)
        for row, nn in opts:
            rows.append(row)
            yield from rec(i + 1, nn)
            rows.pop()

    yield from rec(0, 1)


def shards(n: int, depth: int = 2) -> List[Tuple[int, Tuple[Tuple[int, ...], ...]]]:
    """Deterministic work units (n, prefix) that partition E(n)."""
    depth = min(depth, n)
    out = []

    def rec(i, nxt, rows):
        if i == depth:
            out.append((n, tuple(rows)))
            return
        if i >= nxt:
            return
        for row, nn in _succ_options(i, nxt, n):
            rec(i + 1, nn, rows + [row])

    rec(0, 1, [])
    return out


E_COUNTS = {1: 1, 2: 1, 3: 10, 4: 159, 5: 3695, 6: 111518}


def canonical(g: Dict[str, Tuple[str, ...]] | Graph, entry=None) -> Optional[Graph]:
    """BFS-canonical form of an ordered rooted digraph (None if some node is unreachable)."""
    if isinstance(g, tuple):
        g = {i: tuple(r) for i, r in enumerate(g)}
        entry = 0 if entry is None else entry
    if entry is None:
        tg = {t for r in g.values() for t in r}
        heads = [k for k in g if k not in tg]
        if len(heads) != 1:
            return None
        entry = heads[0]
    order = {entry: 0}
    queue = [entry]
    qi = 0
    while qi < len(queue):
        u = queue[qi]
        qi += 1
        for v in g[u]:
            if v not in order:
                order[v] = len(order)
                queue.append(v)
    if len(order) != len(g):
        return None
    return tuple(tuple(order[v] for v in g[u]) for u in queue)


def is_closed(g: Graph) -> bool:
    """Closed CFG per DESIGN section 9 (g must be in canonical numbering: entry = 0)."""
    n = len(g)
    if n == 0:
        return False
    for r in g:
        if len(r) > 2 or len(set(r)) != len(r) or 0 in r:
            return False
    if canonical(g) is None:
        return False
    return _can_reach_exit(g)


# ---------------------------------------------------------------------------------------
# deviation-bounded family D(B, k)

def edge_deviations(g: Graph) -> Iterator[Graph]:
    """All graphs at exactly one edge deviation from g (closed ones only, canonicalised)."""
    n = len(g)
    seen = set()
    for i in range(n):
        row = g[i]
        cands = []
        # retarget one slot
        for s in range(len(row)):
            for t in range(1, n):
                if t != row[s]:
                    r = list(row)
                    r[s] = t
                    cands.append(tuple(r))
        # add a second successor
        if len(row) == 1:
            for t in range(1, n):
                cands.append((row[0], t))
                cands.append((t, row[0]))
        # add a first successor to an exit
        if len(row) == 0:
            for t in range(1, n):
                cands.append((t,))
        # drop one of two
        if len(row) == 2:
            cands.append((row[0],))
            cands.append((row[1],))
        if len(row) == 1:
            cands.append(())
        for r in cands:
            if len(set(r)) != len(r):
                continue
            h = g[:i] + (r,) + g[i + 1:]
            c = canonical(h)
            if c is None or c in seen or not is_closed(c):
                continue
            seen.add(c)
            yield c


def _dev_chunk(graphs):
    out = set()
    for g in graphs:
        out.update(edge_deviations(g))
    return out


def deviation_closure(bases: Sequence[Graph], k: int) -> List[Graph]:
    """All closed CFGs within <= k edge deviations of some base graph (deduplicated, deterministic order)."""
    from .kernel import shard_map
    seen = {}
    frontier = []
    for b in bases:
        c = canonical(b)
        if c is not None and is_closed(c) and c not in seen:
            seen[c] = 0
            frontier.append(c)
    for d in range(1, k + 1):
        nxt = []
        chunks = [frontier[i:i + 25] for i in range(0, len(frontier), 25)]
        results = shard_map(_dev_chunk, chunks) if len(frontier) > 50 else [_dev_chunk(c) for c in chunks]
        for r in results:
            for h in sorted(r):
                if h not in seen:
                    seen[h] = d
                    nxt.append(h)
        frontier = nxt
    return list(seen.keys())


# ---------------------------------------------------------------------------------------
# LX: one loop with several entries and several exits x every continuation DAG
#
# The shapes C01/C02 call out by name - "loops with several entries/exits/latches, exits landing inside sibling branches,
# branch arms that share blocks" - need 7 to 10 blocks, beyond E(n).  They are generated systematically instead:
#   * a cycle of k blocks (k = 2, 3);
#   * every non-empty set H of cycle blocks as loop headers, entered from a chain of pre-header branch blocks;
#   * every set X (|X| >= 2) of cycle blocks as exiting blocks, the exit arc in either successor slot (uniformly);
#   * every continuation DAG on the |X| exit targets plus a common end block: each exit target continues to one or two of
#     the other exit targets / the end (acyclic) - exits that land in the middle of another exit's continuation.
# All combinations, deduplicated by canonical form.

def loop_exit_family(max_cycle: int = 3, max_exits: int = 3) -> List[Graph]:
    out, seen = [], set()
    for k in range(2, max_cycle + 1):
        cyc = [f"c{i}" for i in range(k)]
        for h in range(1, k + 1):
            for H in itertools.combinations(range(k), h):
                for e in range(2, min(k, max_exits) + 1):
                    for X in itertools.combinations(range(k), e):
                        posts = [f"p{i}" for i in range(e)]
                        choices = []
                        for i in range(e):
                            others = [q for j, q in enumerate(posts) if j != i] + ["end"]
                            opts = [(a,) for a in others] + [(a, b) for a in others for b in others if a != b]
                            choices.append(opts)
                        for dag in itertools.product(*choices):
                            for exit_first in (False, True):
                                g: Dict[str, Tuple[str, ...]] = {}
                                # pre-header chain reaching every header
                                hs = [cyc[i] for i in H]
                                if len(hs) == 1:
                                    g["entry"] = (hs[0],)
                                else:
                                    cur = "entry"
                                    for j, hd in enumerate(hs[:-1]):
                                        last = j == len(hs) - 2
                                        nxt = hs[-1] if last else f"q{j}"
                                        g[cur] = (hd, nxt)
                                        cur = nxt
                                for i in range(k):
                                    nxt = cyc[(i + 1) % k]
                                    if i in X:
                                        p = posts[X.index(i)]
                                        g[cyc[i]] = (p, nxt) if exit_first else (nxt, p)
                                    else:
                                        g[cyc[i]] = (nxt,)
                                for i, succ in enumerate(dag):
                                    g[posts[i]] = tuple(succ)
                                g["end"] = ()
                                c = canonical(g, "entry")
                                if c is None or c in seen or not is_closed(c):
                                    continue
                                seen.add(c)
                                out.append(c)
    return out


# ---------------------------------------------------------------------------------------
# FIG: graphs from the repository's own tests (YAML literals), regression anchors

def fig_graphs(repo: str) -> List[Tuple[str, Graph]]:
    """Closed CFGs among the YAML graph literals of the repository's test modules."""
    import yaml
    out = []
    seen = set()
    tdir = os.path.join(repo, "numba_scfg", "tests")
    for fn in sorted(os.listdir(tdir)):
        if not fn.endswith(".py"):
            continue
        try:
            tree = ast.parse(open(os.path.join(tdir, fn)).read())
        except SyntaxError:
            continue
        for node in ast.walk(tree):
            if isinstance(node, ast.Constant) and isinstance(node.value, str) and "blocks:" in node.value \
                    and "edges:" in node.value:
                try:
                    d = yaml.safe_load(node.value)
                    blocks = d["blocks"]
                    edges = d["edges"]
                except Exception:
                    continue
                if not isinstance(blocks, dict) or not isinstance(edges, dict):
                    continue
                if any((b or {}).get("type") not in ("basic", "python_bytecode") for b in blocks.values()):
                    continue
                g = {str(k): tuple(str(t) for t in (edges.get(k) or [])) for k in blocks}
                if any(t not in g for r in g.values() for t in r):
                    continue
                c = canonical(g)
                if c is None or not is_closed(c) or c in seen:
                    continue
                seen.add(c)
                out.append((f"{fn}:{node.lineno}", c))
    return out


# ---------------------------------------------------------------------------------------
# labelling context: the SAME graph under other block names / dict insertion orders
#
# E(n) lists one graph per isomorphism class in BFS-canonical numbering, where the entry has the smallest name, a loop
# header is (for reducible loops) the smallest name of its loop, and the dict is in BFS order.  The library looks at
# names through sorted() and at dict order through iteration, so the properties, which quantify over ALL closed CFGs,
# also quantify over every naming and every insertion order of each class.  A labelling is (prefix, perm, order):
# block i is called prefix + str(perm[i]) and blocks are inserted in the sequence ``order``.  Only the relative order
# of names can matter to sorted(), so name permutations (plus a prefix that sorts after the generator's own 'synth_...'
# / '..._region_...' names) exhaust that dimension.

_LAB: Optional[tuple] = None


def set_labeling(lab) -> None:
    global _LAB
    if lab is None:
        _LAB = None
    else:
        prefix, perm, order = lab[:3]
        _LAB = (str(prefix), tuple(x if isinstance(x, str) else int(x) for x in perm), tuple(int(x) for x in order)) + \
            ((str(lab[3]),) if len(lab) > 3 and lab[3] else ())


def get_labeling() -> Optional[tuple]:
    return _LAB


def nm(i: int) -> str:
    if _LAB is None:
        return str(i)
    return f"{_LAB[0]}{_LAB[1][i]}"


def entry_name() -> str:
    return nm(0)


def _order(n: int):
    return range(n) if _LAB is None else _LAB[2]


# names the library's own generator hands out: inputs may legitimately carry them (C18), e.g. a graph that was written out
# after a stage and read back, or hand-written
NAMESPACE_NAMES = ["synth_asign_block_0", "synth_asign_block_1", "loop_region_0", "synth_exit_latch_block_0", "synth_head_block_0",
                   "synth_tail_block_0", "synth_return_block_0", "synth_return_block_1", "head_region_0", "branch_region_0",
                   "tail_region_0", "synth_exit_block_0", "synth_fill_block_0", "synth_asign_block_2", "meta_region_0",
                   "__scfg_control_var_0__", "synth_head_block_1", "loop_region_1", "synth_asign_block_9", "synth_asign_block_10",
                   "synth_head_block_9", "synth_head_block_10"]


def shared_generator():
    """A NameGenerator that an earlier, unrelated graph has already used (the ``name_gen`` constructor field is public).  The
    primer is a two-block graph that was closed and restructured: the generator is no longer empty, but its counters are
    still low, so names such as synth_asign_block_0 in the next graph are NOT covered by what was handed out before."""
    from numba_scfg.core.datastructures.scfg import SCFG
    from numba_scfg.core.datastructures.basic_block import BasicBlock
    primer = SCFG(graph={"pa": BasicBlock(name="pa", _jump_targets=("pb",)), "pb": BasicBlock(name="pb")})
    primer.restructure()
    return primer.name_gen


def labelings(n: int, level: str) -> List[tuple]:
    """Non-default labellings of an n-block graph.  level: 'all' | 'few' | 'one', optionally suffixed '+ns'."""
    ident = tuple(range(n))
    rev = tuple(reversed(ident))
    out: List[tuple] = []
    if n < 2:
        return out
    if level.endswith("+ns"):
        # block names from the generator's own namespace: every window of the list, forwards and backwards, entry kept neutral
        level = level[:-3]
        ns = NAMESPACE_NAMES
        for off in range(len(ns)):
            win = tuple(ns[(off + j) % len(ns)] for j in range(n - 1))
            # every other window: the graph is constructed with a generator that an earlier graph has used
            out.append(("", ("entry",) + win, ident) + (("shared",) if off % 2 else ()))
            if n > 2:
                out.append(("", ("entry",) + tuple(reversed(win)), rev) + (() if off % 2 else ("shared",)))
        out.append(("", ident, ident, "shared"))
        out += labelings(n, level)
        return out
    if level == "all":
        for p in itertools.permutations(ident):
            for o in (ident, rev):
                if (p, o) != (ident, ident):
                    out.append(("", p, o))
        out.append(("x", ident, ident))
        out.append(("x", rev, rev))
        # names across a decimal carry (8, 9, 10, 11, ...): textual and numeric order disagree
        for p in itertools.permutations(ident):
            out.append(("", tuple(str(8 + x) for x in p), ident))
    elif level in ("ties", "ties1"):
        # names that are pairwise different strings but EQUAL under plausible other sort keys (numeric value / natural order,
        # case folding): a sort by such a key leaves their relative order to whatever order they arrived in
        zeros = tuple("0" * i + "1" for i in ident)
        out = [("", zeros, ident)]
        if level == "ties":
            cased = tuple(("n" if i % 2 == 0 else "N") + str(i // 2) for i in ident)
            out.append(("", cased, rev))
            # same kind and index in the three flavours of generated names: equal under a key that drops the flavour
            flav = tuple(("k_block_%d", "k_region_%d", "__scfg_k_var_%d__")[i % 3] % (i // 3) for i in ident)
            out.append(("", flav, ident))
    elif level in ("few", "mix", "eo"):
        rot = tuple((i + 1) % n for i in ident)
        # evens-then-odds: neighbours in BFS order get names far apart, so the name ranges of sibling loops / arms interleave
        half = (n + 1) // 2
        eo = tuple(i // 2 if i % 2 == 0 else half + i // 2 for i in ident)
        oe = tuple((n // 2) + i // 2 if i % 2 == 0 else i // 2 for i in ident)
        if level == "few":
            carry = tuple(str(8 + x) for x in ident)
            out = [("", rev, ident), ("", ident, rev), ("x", rot, rev), ("", eo, ident), ("", carry, ident),
                   ("", tuple(reversed(carry)), ident), ("", tuple(str(8 + x) for x in eo), rev)]
        elif level == "eo":
            out = [("", eo, ident)]
        else:
            out = [("", rev, ident), ("", eo, ident), ("", oe, rev)]
    elif level == "one":
        out = [("x", rev, rev), ("", tuple(str(8 + x) for x in rev), ident)]
    return out


def lab_tag(lab) -> str:
    if lab is None:
        return ""
    return "~" + lab[0] + ".".join(str(x) for x in lab[1]) + "/" + ".".join(str(x) for x in lab[2]) + ("@" + lab[3] if len(lab) > 3 else "")


# ---------------------------------------------------------------------------------------
# building library graphs from a Graph

def names(g: Graph) -> List[str]:
    return [nm(i) for i in range(len(g))]


def as_named(g: Graph) -> Dict[str, Tuple[str, ...]]:
    return {nm(i): tuple(nm(t) for t in g[i]) for i in _order(len(g))}


def make_scfg(g: Graph, payload: str = "basic", rename: Optional[Dict[int, str]] = None, shared: bool = False):
    """Build a fresh library SCFG for graph g.  payload in {basic, bytecode, ast, ast_expr}."""
    from numba_scfg.core.datastructures.scfg import SCFG
    from numba_scfg.core.datastructures.basic_block import BasicBlock, PythonBytecodeBlock, PythonASTBlock
    name_of = (lambda i: rename[i]) if rename else nm
    blocks = {}
    for i in (range(len(g)) if rename else _order(len(g))):
        row = g[i]
        name = name_of(i)
        jt = tuple(name_of(t) for t in row)
        if payload == "basic":
            b = BasicBlock(name=name, _jump_targets=jt)
        elif payload == "bytecode":
            b = PythonBytecodeBlock(name=name, _jump_targets=jt, begin=4 * i, end=4 * i + 4)
        elif payload in ("ast", "ast_expr"):
            b = PythonASTBlock(name=name, _jump_targets=jt, begin=i, end=i, tree=ast_payload(i, len(row), payload))
        else:
            raise ValueError(payload)
        blocks[name] = b
    if shared or (not rename and _LAB is not None and len(_LAB) > 3 and _LAB[3] == "shared"):
        return SCFG(graph=blocks, name_gen=shared_generator())
    return SCFG(graph=blocks)


def ast_payload(i: int, nsucc: int, convention: str = "ast") -> list:
    """One traced call per block; an oracle test if two successors; ``return c(..)`` in exits."""
    stmts: list = list(ast.parse(f"c({i})").body)
    if nsucc == 2:
        test = ast.parse(f"t({i})").body[0]
        # the source front end stores a test as a bare expression node; ast_expr wraps it
        stmts.append(test if convention == "ast_expr" else test.value)  # type: ignore
    elif nsucc == 0:
        stmts = list(ast.parse(f"return c({i})").body)
    return stmts


# ---------------------------------------------------------------------------------------
# one block of EVERY registered block type (the registry is read from the library, so a new type without a recipe here is a
# harness error, not a silent gap), each with a non-trivial payload, in one hand-built graph with one region

def one_of_each_type():
    from numba_scfg.core.datastructures import basic_block as bb
    from numba_scfg.core.datastructures.scfg import SCFG
    classes = [c for c in bb.block_type_names.values() if c is not bb.RegionBlock]
    order = ["entry"] + [f"t{i}" for i in range(len(classes))] + ["the_region", "last"]
    blocks = {}

    def make(cls, name, nxt, nxt2):
        if issubclass(cls, bb.SyntheticBranch):
            return cls(name=name, _jump_targets=(nxt, nxt2), backedges=(), variable=f"ctl_{name}",
                       branch_value_table={0: nxt, 1: nxt2, 2: nxt})
        if cls is bb.SyntheticAssignment:
            return cls(name=name, _jump_targets=(nxt,), backedges=(), variable_assignment={f"va_{name}": 1, f"vb_{name}": 7})
        if cls is bb.PythonBytecodeBlock:
            return cls(name=name, _jump_targets=(nxt,), begin=10, end=20)
        if issubclass(cls, bb.BasicBlock):
            return cls(name=name, _jump_targets=(nxt,))
        from .kernel import HarnessError
        raise HarnessError(f"no recipe for block type {cls.__name__}")
    blocks["entry"] = bb.BasicBlock(name="entry", _jump_targets=("t0",))
    for i, cls in enumerate(classes):
        name = f"t{i}"
        nxt = order[order.index(name) + 1]
        nxt2 = order[min(order.index(name) + 2, len(order) - 1)]
        blocks[name] = make(cls, name, nxt, nxt2)
    inner = SCFG(graph={
        "r_head": bb.SyntheticBranch(name="r_head", _jump_targets=("r_a", "r_latch"), backedges=(), variable="ctl_r",
                                     branch_value_table={0: "r_a", 1: "r_latch"}),
        "r_a": bb.SyntheticAssignment(name="r_a", _jump_targets=("r_latch",), backedges=(), variable_assignment={"ctl_r": 1}),
        "r_latch": bb.SyntheticExitingLatch(name="r_latch", _jump_targets=("last", "r_head"), backedges=("r_head",), variable="ctl_l",
                                            branch_value_table={0: "last", 1: "r_head"}),
    })
    top = SCFG(graph=blocks)
    region = bb.RegionBlock(name="the_region", _jump_targets=("last",), backedges=(), kind="loop", header="r_head", exiting="r_latch",
                            subregion=inner, parent_region=top.region)
    object.__setattr__(inner, "region", region)
    top.graph["the_region"] = region
    top.graph["last"] = bb.BasicBlock(name="last", _jump_targets=())
    return top, [c.__name__ for c in classes] + ["RegionBlock"]
