"""Program families: control skeletons S(c), expression shapes X(d), targeted programs.

A skeleton is a tree:  Block = (compounds, terminator);  Compound = (kind, body, orelse)
with kind in {if, while, for};  orelse is None, a Block, or ("elif", Compound-if).
Rendering inserts oracle calls: tests are ``t(k)``, iterables ``it(k)``, traced calls ``c(k)``.
"""
from __future__ import annotations

import ast
import functools
from typing import Iterator, List, Optional, Tuple

TERMS_TOP = ("", "return")
TERMS_LOOP = ("", "return", "break", "continue")


def blocks(budget: int, in_loop: bool, loop_else: bool = True) -> Iterator[tuple]:
    """All blocks using exactly ``budget`` compound statements."""
    terms = TERMS_LOOP if in_loop else TERMS_TOP
    for comps in _compound_seqs(budget, in_loop, loop_else):
        for t in terms:
            yield (comps, t)


def _compound_seqs(budget: int, in_loop: bool, loop_else: bool) -> Iterator[tuple]:
    if budget == 0:
        yield ()
        return
    for first in range(1, budget + 1):
        for c in compounds(first, in_loop, loop_else):
            for rest in _compound_seqs(budget - first, in_loop, loop_else):
                yield (c,) + rest


def compounds(b: int, in_loop: bool, loop_else: bool = True) -> Iterator[tuple]:
    """All compound statements using exactly b >= 1 compounds (itself included)."""
    inner = b - 1
    for b1 in range(inner + 1):
        b2 = inner - b1
        # if
        for then in blocks(b1, in_loop, loop_else):
            if b2 == 0:
                yield ("if", then, None)
            for els in blocks(b2, in_loop, loop_else):
                yield ("if", then, els)
            if b2 >= 1:
                for c in compounds(b2, in_loop, loop_else):
                    if c[0] == "if":
                        yield ("if", then, ("elif", c))
        # loops
        for kind in ("while", "for"):
            for body in blocks(b1, True, loop_else):
                if b2 == 0:
                    yield (kind, body, None)
                if loop_else:
                    for els in blocks(b2, in_loop, loop_else):
                        yield (kind, body, els)


def skeletons(c: int, loop_else: bool = True) -> Iterator[tuple]:
    """Function bodies with exactly c compound statements."""
    yield from blocks(c, False, loop_else)


S_COUNTS = {0: 2, 1: 60, 2: 6240}


class _Render:
    def __init__(self, mode: str):
        self.mode = mode      # "marked" | "bare"
        self.k = 0
        self.lines: List[str] = []

    def nk(self) -> int:
        self.k += 1
        return self.k

    def emit(self, ind: int, s: str):
        self.lines.append("    " * ind + s)

    def block(self, blk, ind: int, loopvar: Optional[str] = None):
        comps, term = blk
        marked = self.mode == "marked"
        n0 = len(self.lines)
        if marked and loopvar:
            self.emit(ind, f"c({self.nk()}, {loopvar})")
        for c in comps:
            if marked:
                self.emit(ind, f"c({self.nk()})")
            self.compound(c, ind)
        if marked:
            self.emit(ind, f"c({self.nk()})")
        if term == "return":
            self.emit(ind, f"return c({self.nk()})" if marked else f"return {self.nk()}")
        elif term:
            self.emit(ind, term)
        if len(self.lines) == n0:
            self.emit(ind, "pass")

    def compound(self, c, ind: int, as_elif: bool = False):
        kind, body, els = c
        if kind == "if":
            self.emit(ind, f"{'elif' if as_elif else 'if'} t({self.nk()}):")
            self.block(body, ind + 1)
            if els is not None:
                if els[0] == "elif":
                    self.compound(els[1], ind, as_elif=True)
                else:
                    self.emit(ind, "else:")
                    self.block(els, ind + 1)
        elif kind == "while":
            self.emit(ind, f"while t({self.nk()}):")
            self.block(body, ind + 1)
            if els is not None:
                self.emit(ind, "else:")
                self.block(els, ind + 1)
        elif kind == "for":
            k = self.nk()
            self.emit(ind, f"for x{k} in it({k}):")
            self.block(body, ind + 1, loopvar=f"x{k}")
            if els is not None:
                self.emit(ind, "else:")
                self.block(els, ind + 1)


class _RenderArgs(_Render):
    """'args' mode: control flow is driven by the function's PARAMETERS instead of oracle calls: ``if a3:`` / ``if a3 > 1:``,
    ``while a3 > 0:`` (the body first decrements a3), ``for x3 in range(a3):``; traced calls mark every position."""

    def __init__(self):
        super().__init__("marked")
        self.params: List[str] = []

    def compound(self, c, ind: int, as_elif: bool = False):
        kind, body, els = c
        k = self.nk()
        a = f"a{k}"
        self.params.append(a)
        if kind == "if":
            test = a if k % 2 else f"{a} > 1"
            self.emit(ind, f"{'elif' if as_elif else 'if'} {test}:")
            self.block(body, ind + 1)
            if els is not None:
                if els[0] == "elif":
                    self.compound(els[1], ind, as_elif=True)
                else:
                    self.emit(ind, "else:")
                    self.block(els, ind + 1)
        elif kind == "while":
            self.emit(ind, f"while {a} > 0:")
            self.emit(ind + 1, f"{a} -= 1")
            self.block(body, ind + 1)
            if els is not None:
                self.emit(ind, "else:")
                self.block(els, ind + 1)
        else:
            self.emit(ind, f"for x{k} in range({a}):")
            self.block(body, ind + 1, loopvar=f"x{k}")
            if els is not None:
                self.emit(ind, "else:")
                self.block(els, ind + 1)


SIG_FORMS = 4


def render_args(skel, form: int, name: str = "f") -> Tuple[str, List[str], int]:
    """(source, parameter names, signature form).  Forms: 0 all positional; 1 last parameter has a default; 2 last parameter
    is keyword-only with a default; 3 first parameter positional-only, *rest collects extras, **kw present."""
    r = _RenderArgs()
    r.block(skel, 1)
    ps = r.params
    if not ps:
        sig = ""
    elif form == 0:
        sig = ", ".join(ps)
    elif form == 1:
        sig = ", ".join(ps[:-1] + [ps[-1] + "=1"])
    elif form == 2:
        sig = ", ".join(ps[:-1] + ["*", ps[-1] + "=2"])
    else:
        sig = ", ".join([ps[0], "/"] + ps[1:] + ["*rest", "**kw"])
    return f"def {name}({sig}):\n" + "\n".join(r.lines) + "\n", ps, form


def arg_programs(max_c: int) -> Iterator[Tuple[str, str, List[str], int]]:
    """(label, source, params, form) for all skeletons with 1..max_c compounds, signature form cycling with the index."""
    for c in range(1, max_c + 1):
        for i, sk in enumerate(skeletons(c, True)):
            form = i % SIG_FORMS
            src, ps, form = render_args(sk, form)
            yield f"A{c}/args{form}/{i}", src, ps, form


def arg_calls(ps: List[str], form: int, values=(0, 1, 2)) -> Iterator[Tuple[tuple, dict]]:
    """Exhaustive argument tuples over ``values`` in the calling conventions the signature form allows, plus ill-formed calls."""
    import itertools as _it
    n = len(ps)
    for tup in _it.product(values, repeat=n):
        if form in (0, 1, 3) or n == 0:
            yield tup, {}
        if form == 1 and n:
            yield tup[:-1], {}                       # default used
            yield tup[:-1], {ps[-1]: tup[-1]}         # by keyword
        if form == 2 and n:
            yield tup[:-1], {ps[-1]: tup[-1]}
            yield tup[:-1], {}
        if form == 0 and n:
            yield (), dict(zip(ps, tup))              # all by keyword
    # ill-formed calls must fail the same way
    yield tuple(values[:1]) * (n + 1), {}
    if n:
        yield (), {}
        yield tuple(values[:1]) * n, {"no_such_parameter": 1}
    if form == 3 and n:
        yield (), {ps[0]: 1}                          # positional-only passed by keyword


def render(skel, mode: str = "marked", name: str = "f") -> str:
    r = _Render(mode)
    r.emit(0, f"def {name}():")
    r.block(skel, 1)
    return "\n".join(r.lines) + "\n"


def skeleton_sources(max_c: int, mode: str = "marked", loop_else_upto: int = 2) -> Iterator[Tuple[str, str]]:
    """(label, source) for all skeletons with <= max_c compounds."""
    for c in range(max_c + 1):
        le = c <= loop_else_upto
        for i, sk in enumerate(skeletons(c, le)):
            yield f"S{c}/{mode}/{i}", render(sk, mode)


# ---------------------------------------------------------------------------------------
# front-end CFGs for the deviation family

def source_cfg(src: str):
    """CFG of the source front end as {name: successors}; None if the front end refuses/raises."""
    from numba_scfg.core.datastructures.ast_transforms import AST2SCFG
    try:
        scfg = AST2SCFG(src)
    except Exception:  # noqa: BLE001
        return None
    return {n: tuple(b._jump_targets) for n, b in scfg.graph.items()}


def skeleton_cfgs(level: int) -> list:
    """Distinct closed CFGs emitted by the source front end for S(<= level), marked mode."""
    from .families import canonical, is_closed
    seen, out = set(), []
    for label, src in skeleton_sources(level, "marked"):
        g = source_cfg(src)
        if g is None:
            continue
        if any(t not in g for r in g.values() for t in r):
            continue
        c = canonical(g, "0" if "0" in g else None)
        if c is None or not is_closed(c) or c in seen:
            continue
        seen.add(c)
        out.append(c)
    return out


# ---------------------------------------------------------------------------------------
# expression shapes X(d)

def exprs(depth: int, counter=None) -> Iterator[str]:
    """Expression templates with ``{}`` placeholders for oracle leaves, to depth ``depth``."""
    if depth == 0:
        yield "{}"
        return
    subs = list(exprs(depth - 1))
    leaf = ["{}"]
    yield from leaf
    seen = set(leaf)
    for a in subs:
        for form in ("not ({a})", "-({a})", "({a}).p", "({a})[0]", "g({a})", "({a}) if {L} else {L}", "{L} if ({a}) else {L}"):
            e = form.replace("{a}", a).replace("{L}", "{}")
            if e not in seen:
                seen.add(e)
                yield e
    for a in subs:
        for b in subs:
            if a != "{}" and b != "{}" and depth > 1:
                # both operands compound only at depth >= 2 with small leaf budget (filtered by caller)
                pass
            for form in ("({a}) and ({b})", "({a}) or ({b})", "({a}) < ({b})", "({a}) + ({b})", "g({a}, {b})",
                         "({a}) < ({b}) < {L}", "({a}) and ({b}) and {L}", "({a}) or ({b}) and {L}"):
                e = form.replace("{a}", a).replace("{b}", b).replace("{L}", "{}")
                if e not in seen:
                    seen.add(e)
                    yield e


CARRIERS = {
    "if": "def f():\n    if {E}:\n        c(90)\n    else:\n        c(91)\n    return c(92)\n",
    "elif": "def f():\n    if t(80):\n        c(90)\n    elif {E}:\n        c(91)\n    else:\n        c(93)\n    return c(92)\n",
    "while": "def f():\n    while {E}:\n        c(90)\n        if t(81):\n            break\n    return c(92)\n",
    "if_pass_then": "def f():\n    if {E}:\n        pass\n    else:\n        c(91)\n    return c(92)\n",
    "if_pass_else": "def f():\n    if {E}:\n        c(90)\n    else:\n        pass\n    return c(92)\n",
    "assign": "def f():\n    y = {E}\n    return c(92, y)\n",
    "augassign": "def f():\n    y = 1\n    y += {E}\n    return c(92, y)\n",
    "expr": "def f():\n    {E}\n    return c(92)\n",
    "return": "def f():\n    return {E}\n",
    "callarg": "def f():\n    return c(92, {E})\n",
    "foriter": "def f():\n    for x in w({E}):\n        c(90, x)\n    return c(92)\n",
    "if_in_loop": "def f():\n    for x in it(80):\n        if {E}:\n            c(90)\n            continue\n        c(91)\n    return c(92)\n",
}


def fill(template: str, leaf: str = "v") -> Tuple[str, int]:
    """Replace each ``{}`` by a numbered oracle leaf ``v(k)``."""
    out, k = [], 0
    i = 0
    while i < len(template):
        if template.startswith("{}", i):
            k += 1
            out.append(f"{leaf}({k})")
            i += 2
        else:
            out.append(template[i])
            i += 1
    return "".join(out), k


def expr_programs(depth: int, max_leaves: int) -> Iterator[Tuple[str, str]]:
    for e in exprs(depth):
        src_e, n = fill(e)
        if n > max_leaves:
            continue
        for cname, tmpl in CARRIERS.items():
            yield f"X{depth}/{cname}/{e}", tmpl.replace("{E}", src_e)


# ---------------------------------------------------------------------------------------
# targeted programs (shapes called out by the property notes)

TARGETED = {
    "loopvar_after_for": "def f():\n    for x in it(1):\n        c(2, x)\n    return c(3, x)\n",
    "loopvar_after_for_else": "def f():\n    for x in it(1):\n        c(2, x)\n    else:\n        c(4, x)\n    return c(3, x)\n",
    "loopvar_break": "def f():\n    for x in it(1):\n        if t(2):\n            break\n    return c(3, x)\n",
    "loopvar_prebound": "def f():\n    x = c(0)\n    for x in it(1):\n        c(2, x)\n    return c(3, x)\n",
    "loopvar_nested": "def f():\n    for x in it(1):\n        for y in it(2):\n            c(3, x, y)\n        c(4, x)\n    return c(5)\n",
    "while_true_break": "def f():\n    while True:\n        c(1)\n        if t(2):\n            break\n    return c(3)\n",
    "while_const_false": "def f():\n    while 0:\n        c(1)\n    return c(3)\n",
    "if_in_if_in_while": "def f():\n    if t(1):\n        if t(2):\n            while t(3):\n                c(4)\n    return c(5)\n",
    "augassign_chain": "def f():\n    y = c(1)\n    y += c(2)\n    y += c(3)\n    return y\n",
    "tuple_target_for": "def f():\n    for a, b in it2(1):\n        c(2, a, b)\n    return c(3)\n",
    "compare_chain_side_effects": "def f():\n    if v(1) < v(2) < v(3):\n        return c(4)\n    return c(5)\n",
    "nested_andor_right": "def f():\n    if t(1) and (t(2) or t(3)):\n        return c(4)\n    return c(5)\n",
    "nested_andor_left": "def f():\n    if (t(1) or t(2)) and t(3):\n        return c(4)\n    return c(5)\n",
    "andor_in_call_arg": "def f():\n    return c(9, t(1) and t(2), t(3) or t(4))\n",
    "andor_value": "def f():\n    y = v(1) or v(2)\n    z = v(3) and v(4)\n    return c(5, y, z)\n",
    "shadow_next": "def f():\n    next = c(1)\n    for x in it(2):\n        c(3, x)\n    return c(4, next)\n",
    "shadow_iter": "def f():\n    iter = c(1)\n    for x in it(2):\n        c(3, x)\n    return c(4, iter)\n",
    "if_literal_0": "def f():\n    if 0:\n        c(1)\n    else:\n        c(2)\n    return c(3)\n",
    "if_literal_1": "def f():\n    if 1:\n        c(1)\n    else:\n        c(2)\n    return c(3)\n",
    "if_literal_none": "def f():\n    if None:\n        return c(1)\n    return c(3)\n",
    "if_literal_str": "def f():\n    if 'x':\n        return c(1)\n    return c(3)\n",
    "while_literal_1_break": "def f():\n    while 1:\n        c(1)\n        if t(2):\n            break\n        c(3)\n    return c(4)\n",
    "while_true_return_inside": "def f():\n    while True:\n        c(1)\n        if t(2):\n            return c(3)\n",
    "while_false_else": "def f():\n    while False:\n        c(1)\n    else:\n        c(2)\n    return c(3)\n",
    "elif_literal": "def f():\n    if t(1):\n        c(2)\n    elif 0:\n        c(3)\n    else:\n        c(4)\n    return c(5)\n",
    "literal_in_andor": "def f():\n    if t(1) and 1:\n        return c(2)\n    if 0 or t(3):\n        return c(4)\n    return c(5)\n",
    "ifexp_value": "def f():\n    y = c(1) if t(2) else c(3)\n    return c(4, y)\n",
    "or_chain4_test": "def f():\n    if v(1) or v(2) or v(3) or v(4):\n        return c(5)\n    return c(6)\n",
    "and_chain4_test": "def f():\n    if v(1) and v(2) and v(3) and v(4):\n        return c(5)\n    return c(6)\n",
    "or_chain5_value": "def f():\n    y = v(1) or v(2) or v(3) or v(4) or v(5)\n    return c(6, y)\n",
    "and_chain5_return": "def f():\n    return v(1) and v(2) and v(3) and v(4) and v(5)\n",
    "or_chain4_while": "def f():\n    while v(1) or v(2) or v(3) or v(4):\n        c(5)\n        if t(6):\n            break\n    return c(7)\n",
    "and_chain4_callarg": "def f():\n    return c(9, v(1) and v(2) and v(3) and v(4))\n",
    "and_or_or_mixed_chain": "def f():\n    return v(1) and v(2) or v(3) or v(4)\n",
    "or_and_and_mixed_chain": "def f():\n    if (v(1) or v(2)) and v(3) and v(4):\n        return c(5)\n    return c(6)\n",
    "call_of_or_then_and_chain": "def f():\n    y = g(v(1) or v(2)) and v(3) and v(4)\n    return c(5, y)\n",
    "nested_left_deep": "def f():\n    if ((v(1) and v(2)) or v(3)) and v(4):\n        return c(5)\n    return c(6)\n",
    "not_of_andor": "def f():\n    if not (v(1) and v(2)) or v(3):\n        return c(5)\n    return c(6)\n",
    # the same expression / statement / test twice (anything keyed by source text or ast.dump would conflate them)
    "dup_or_in_binop": "def f():\n    return (v(1) or v(2)) + (v(1) or v(2))\n",
    "dup_and_in_call": "def f():\n    return g(v(1) and v(2), v(1) and v(2))\n",
    "dup_andor_stmts": "def f():\n    y = v(1) and v(2)\n    z = v(1) and v(2)\n    return c(5, y, z)\n",
    "dup_stmt_arms": "def f():\n    if t(1):\n        c(5)\n    else:\n        c(5)\n    return c(6)\n",
    "dup_tests_seq": "def f():\n    if t(1):\n        c(2)\n    if t(1):\n        c(2)\n    return c(3)\n",
    "dup_loops": "def f():\n    while t(1):\n        c(2)\n    while t(1):\n        c(2)\n    return c(3)\n",
    "dup_nested_for": "def f():\n    for x in it(1):\n        for x in it(1):\n            c(2, x)\n        c(3, x)\n    return c(4)\n",
    "dup_ifexp": "def f():\n    y = c(0, c(1) if t(2) else c(3), c(1) if t(2) else c(3))\n    return c(4, y)\n",
    "dup_compare_chain": "def f():\n    if v(1) < v(2) < v(1):\n        return c(3)\n    return c(4)\n",
    "return_in_loop_else": "def f():\n    for x in it(1):\n        c(2)\n    else:\n        return c(3)\n    return c(4)\n",
    # continue in a loop whose test is an and/or (the continue must re-evaluate the whole test), with and without else
    "while_and_continue": "def f():\n    while t(1) and t(2):\n        c(3)\n        if t(4):\n            continue\n        c(5)\n    return c(6)\n",
    "while_or_continue_else": "def f():\n    while t(1) or t(2):\n        if t(4):\n            continue\n        c(5)\n        if t(7):\n            break\n    else:\n        c(8)\n    return c(6)\n",
    "while_and3_continue_nested": "def f():\n    while t(1):\n        while v(2) and v(3) and v(4):\n            if t(5):\n                continue\n            c(6)\n        c(7)\n    return c(8)\n",
    # textually identical statements back to back inside a loop body / an arm / a nested region
    "dup_assign_in_while": "def f():\n    y = c(0)\n    while t(1):\n        y = c(2, y)\n        y = c(2, y)\n    return c(3, y)\n",
    "dup_assign_in_arm": "def f():\n    y = c(0)\n    if t(1):\n        y = c(2, y)\n        y = c(2, y)\n    else:\n        c(4)\n        c(4)\n    return c(3, y)\n",
    "dup_stmts_nested": "def f():\n    y = 1\n    while t(1):\n        if t(2):\n            y = y * 2\n            y = y * 2\n            y += 1\n            y += 1\n        c(5, y)\n        c(5, y)\n    return c(3, y)\n",
    "continue_in_while_else_if": "def f():\n    while t(1):\n        if t(2):\n            continue\n        elif t(3):\n            break\n        c(4)\n    else:\n        c(5)\n    return c(6)\n",
}


def all_target_programs() -> Iterator[Tuple[str, str]]:
    for k, v in TARGETED.items():
        yield f"T/{k}", v


# ---------------------------------------------------------------------------------------
# structural shapes of a source program (used in violation fingerprints)

def _first_leaf(e: ast.AST) -> ast.AST:
    """The sub-expression evaluated first when e is evaluated."""
    while True:
        if isinstance(e, ast.BoolOp):
            e = e.values[0]
        elif isinstance(e, ast.Compare):
            e = e.left
        elif isinstance(e, ast.BinOp):
            e = e.left
        elif isinstance(e, ast.UnaryOp):
            e = e.operand
        elif isinstance(e, (ast.Attribute, ast.Subscript)):
            e = e.value
        elif isinstance(e, ast.IfExp):
            e = e.test
        elif isinstance(e, ast.Call):
            if isinstance(e.func, ast.Name):
                return e          # evaluating the callee name has no effect; the call's args come next
            e = e.func
        else:
            return e


def source_shapes(src: str) -> str:
    """Comma-separated structural predicates of a program (empty string if none applies)."""
    try:
        tree = ast.parse(src)
    except SyntaxError:
        return "syntax-error"
    shapes = set()
    # statement-level expressions
    tops = []
    for n in ast.walk(tree):
        if isinstance(n, (ast.If, ast.While)):
            tops.append(n.test)
        elif isinstance(n, (ast.Assign, ast.AugAssign, ast.Expr, ast.Return)) and n.value is not None:
            tops.append(n.value)
        elif isinstance(n, ast.For):
            tops.append(n.iter)
    for top in tops:
        first = _first_leaf(top)
        for sub in ast.walk(top):
            if isinstance(sub, ast.BoolOp) and sub is not top:
                # a BoolOp that is hoisted into its own statements although something is evaluated before it
                if _first_leaf(sub) is not first or isinstance(top, ast.Call) and not isinstance(top, ast.BoolOp):
                    shapes.add("boolop-evaluated-after-earlier-operand")
            if isinstance(sub, ast.BoolOp) and sub is top:
                for v in sub.values[1:]:
                    for s2 in ast.walk(v):
                        if isinstance(s2, ast.BoolOp):
                            shapes.add("boolop-evaluated-after-earlier-operand")
            if isinstance(sub, ast.IfExp):
                for s2 in list(ast.walk(sub.body)) + list(ast.walk(sub.orelse)):
                    if isinstance(s2, ast.BoolOp):
                        shapes.add("boolop-inside-conditional-expression")
    # for-loop targets observed outside the loop body
    for n in ast.walk(tree):
        if isinstance(n, ast.For) and isinstance(n.target, ast.Name):
            inside = {id(x) for b in n.body for x in ast.walk(b)}
            for m in ast.walk(tree):
                if isinstance(m, ast.Name) and m.id == n.target.id and id(m) not in inside and m is not n.target:
                    shapes.add("for-target-used-outside-loop-body")
    for n in ast.walk(tree):
        if isinstance(n, ast.Name) and isinstance(n.ctx, ast.Store) and n.id in ("iter", "next") \
                and any(isinstance(m, ast.For) for m in ast.walk(tree)):
            shapes.add("binds-builtin-used-by-for-lowering")
    return ",".join(sorted(shapes))


# dead code after a terminator in the same suite (statement placement / sealing rules)
DEADCODE = {
    "after_return": "def f():\n    c(1)\n    return c(2)\n    c(3)\n",
    "after_return_in_if": "def f():\n    if t(1):\n        return c(2)\n        c(3)\n    return c(4)\n",
    "after_break": "def f():\n    while t(1):\n        c(2)\n        break\n        c(3)\n    return c(4)\n",
    "after_continue": "def f():\n    for x in it(1):\n        c(2)\n        continue\n        c(3)\n    return c(4)\n",
    "after_break_in_if": "def f():\n    while t(1):\n        if t(2):\n            break\n            c(3)\n        c(4)\n    return c(5)\n",
    "return_then_loop": "def f():\n    return c(1)\n    while t(2):\n        c(3)\n",
    "if_after_return": "def f():\n    return c(1)\n    if t(2):\n        c(3)\n    return c(4)\n",
}


# ---------------------------------------------------------------------------------------
# CH(c): nesting chains - at most one compound statement per block, terminators only in blocks without a
# compound.  Reaches depth-c nesting (e.g. an if inside a while-else inside a for) at a fraction of S(c).

def chain_blocks(budget: int, in_loop: bool) -> Iterator[tuple]:
    terms = TERMS_LOOP if in_loop else TERMS_TOP
    if budget == 0:
        for t in terms:
            yield ((), t)
        return
    for c in chain_compounds(budget, in_loop):
        yield ((c,), "")


def chain_compounds(b: int, in_loop: bool) -> Iterator[tuple]:
    inner = b - 1
    for b1 in range(inner + 1):
        b2 = inner - b1
        for then in chain_blocks(b1, in_loop):
            if b2 == 0:
                yield ("if", then, None)
            for els in chain_blocks(b2, in_loop):
                yield ("if", then, els)
        for kind in ("while", "for"):
            for body in chain_blocks(b1, True):
                if b2 == 0:
                    yield (kind, body, None)
                for els in chain_blocks(b2, in_loop):
                    yield (kind, body, els)


CH_COUNTS = {0: 2, 1: 30, 2: 750, 3: 23970, 4: 871050}


def chain_sources(c: int, mode: str = "marked") -> Iterator[Tuple[str, str]]:
    """(label, source) for all nesting chains with exactly c compounds."""
    for i, sk in enumerate(chain_blocks(c, False)):
        yield f"CH{c}/{mode}/{i}", render(sk, mode)


# ---------------------------------------------------------------------------------------
# XC(n): and/or chains - every operator pattern over n oracle operands, unparenthesised (Python's precedence
# groups them) and with one parenthesised sub-range; in the if / return / assign carriers.

def chain_exprs(n: int, parens: bool = True) -> Iterator[str]:
    import itertools as _it
    for ops in _it.product(("and", "or"), repeat=n - 1):
        toks = ["v(%d)" % (i + 1) for i in range(n)]
        yield " ".join(t if j == 0 else f"{ops[j - 1]} {t}" for j, t in enumerate(toks))
        if not parens:
            continue
        for i in range(n):
            for j in range(i + 1, n):
                if i == 0 and j == n - 1:
                    continue
                parts = []
                for k, t in enumerate(toks):
                    s = t
                    if k == i:
                        s = "(" + s
                    if k == j:
                        s = s + ")"
                    parts.append(s if k == 0 else f"{ops[k - 1]} {s}")
                yield " ".join(parts)


XC_CARRIERS = {
    "if": "def f():\n    if {E}:\n        return c(90)\n    return c(91)\n",
    "return": "def f():\n    return {E}\n",
    "assign_in_loop": "def f():\n    for x in it(80):\n        y = {E}\n        c(90, y)\n    return c(91)\n",
}


def boolchain_programs(max_n: int, max_paren_n: int) -> Iterator[Tuple[str, str]]:
    for n in range(2, max_n + 1):
        for e in chain_exprs(n, parens=n <= max_paren_n):
            for cname, tmpl in XC_CARRIERS.items():
                yield f"XC{n}/{cname}/{e}", tmpl.replace("{E}", e)


# ---------------------------------------------------------------------------------------
# BIG: a few large programs - long sequences and deep nests.  "Any size" cannot be enumerated, but cost that grows with size
# (a recursion per block, a quadratic scan) only shows on inputs that are actually large.

def big_sources(tier: str = "quick"):
    k = 1 if tier == "quick" else 2
    out = {}
    n = 40 * k
    out[f"seq_if_{n}"] = "def f(a):\n" + "".join(f"    if t({i}):\n        c({i})\n" for i in range(n)) + "    return c(9999)\n"
    n = 25 * k
    out[f"seq_while_{n}"] = "def f(a):\n" + "".join(f"    while t({i}):\n        c({i})\n" for i in range(n)) + "    return c(9999)\n"
    n = 25 * k
    s = "def f(a):\n"
    for i in range(n):
        s += "    " * (i + 1) + f"if t({i}):\n"
    s += "    " * (n + 1) + "c(1)\n    return c(9999)\n"
    out[f"nest_if_{n}"] = s
    n = 8 * k
    s = "def f(a):\n"
    for i in range(n):
        s += "    " * (i + 1) + (f"while t({i}):\n" if i % 2 == 0 else f"for x{i} in it({i}):\n")
    s += "    " * (n + 1) + "if t(77):\n" + "    " * (n + 2) + "break\n" + "    " * (n + 1) + "c(1)\n    return c(9999)\n"
    out[f"nest_loops_{n}"] = s
    n = 15 * k
    out[f"elif_chain_{n}"] = "def f(a):\n    if t(0):\n        return c(0)\n" + "".join(
        f"    elif t({i}):\n        return c({i})\n" for i in range(1, n)) + "    return c(9999)\n"
    n = 12 * k
    out[f"loop_many_exits_{n}"] = "def f(a):\n    while t(0):\n" + "".join(
        f"        if t({i}):\n            return c({i})\n" for i in range(1, n)) + "        c(500)\n    return c(9999)\n"
    return out


def big_graphs(tier: str = "quick"):
    """Closed CFGs of the big programs as produced by BOTH front ends."""
    from .families import canonical, is_closed
    out, seen = [], set()
    for name, src in big_sources(tier).items():
        cands = [source_cfg(src)]
        try:
            from numba_scfg.core.datastructures.byte_flow import ByteFlow
            ns = {}
            exec(compile(src, "<big>", "exec"), ns)
            scfg = ByteFlow.from_bytecode(ns["f"]).scfg
            cands.append({n: tuple(b._jump_targets) for n, b in scfg.graph.items()})
        except Exception:  # noqa: BLE001
            pass
        for g in cands:
            if g is None or any(t not in g for r in g.values() for t in r):
                continue
            c = canonical(g, "0" if "0" in g else None)
            if c is not None and is_closed(c) and c not in seen:
                seen.add(c)
                out.append(c)
    return out


# ---------------------------------------------------------------------------------------
# ARMS: one branch with two or three arms, every combination of arm kinds, optionally inside a loop.  Two arms that each end
# in a loop, next to an arm that returns early, give tails with several headers entered from several loop regions - four
# compound statements, beyond S(3).

ARM_KINDS = ("plain", "while", "for", "ret", "ifret", "while_break")
ARM_KINDS_IN_LOOP = ARM_KINDS + ("brk", "cont")


def _arm(kind: str, r: "_Render", ind: int):
    k = r.nk
    if kind == "plain":
        r.emit(ind, f"c({k()})")
    elif kind == "while":
        r.emit(ind, f"while t({k()}):")
        r.emit(ind + 1, f"c({k()})")
    elif kind == "for":
        n = k()
        r.emit(ind, f"for x{n} in it({n}):")
        r.emit(ind + 1, f"c({k()}, x{n})")
    elif kind == "ret":
        r.emit(ind, f"return c({k()})")
    elif kind == "ifret":
        r.emit(ind, f"if t({k()}):")
        r.emit(ind + 1, f"return c({k()})")
    elif kind == "while_break":
        r.emit(ind, f"while t({k()}):")
        r.emit(ind + 1, f"if t({k()}):")
        r.emit(ind + 2, "break")
        r.emit(ind + 1, f"c({k()})")
    elif kind == "brk":
        r.emit(ind, f"c({k()})")
        r.emit(ind, "break")
    elif kind == "cont":
        r.emit(ind, f"c({k()})")
        r.emit(ind, "continue")


def arm_programs(tier: str = "quick") -> Iterator[Tuple[str, str]]:
    import itertools as _it
    for wrap in ("none", "while", "for"):
        kinds = ARM_KINDS if wrap == "none" else ARM_KINDS_IN_LOOP
        for narms in (2, 3):
            for combo in _it.product(kinds, repeat=narms):
                if all(c in ("plain",) for c in combo):
                    continue
                r = _Render("marked")
                r.emit(0, "def f():")
                ind = 1
                r.emit(ind, f"c({r.nk()})")
                if wrap == "while":
                    r.emit(ind, f"while t({r.nk()}):")
                    ind += 1
                elif wrap == "for":
                    n = r.nk()
                    r.emit(ind, f"for w{n} in it({n}):")
                    ind += 1
                for i, kind in enumerate(combo):
                    if i == 0:
                        r.emit(ind, f"if t({r.nk()}):")
                    elif i < narms - 1:
                        r.emit(ind, f"elif t({r.nk()}):")
                    else:
                        r.emit(ind, "else:")
                    _arm(kind, r, ind + 1)
                r.emit(ind, f"c({r.nk()})")
                r.emit(1, f"return c({r.nk()})")
                yield f"ARMS/{wrap}/{'-'.join(combo)}", "\n".join(r.lines) + "\n"


def arm_cfgs() -> list:
    """Distinct closed CFGs of the source front end for the ARMS programs."""
    from .families import canonical, is_closed
    seen, out = set(), []
    for label, src in arm_programs():
        g = source_cfg(src)
        if g is None or any(t not in g for r in g.values() for t in r):
            continue
        c = canonical(g, "0" if "0" in g else None)
        if c is not None and is_closed(c) and c not in seen:
            seen.add(c)
            out.append(c)
    return out
