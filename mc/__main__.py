"""CLI:  python -m mc check C01 [--tier quick|thorough]   |   python -m mc replay <file>   |   python -m mc selftest"""
import argparse
import os
import sys

import mc  # noqa: F401  (path setup)


def main(argv=None) -> int:
    ap = argparse.ArgumentParser(prog="mc")
    sub = ap.add_subparsers(dest="cmd", required=True)
    c = sub.add_parser("check")
    c.add_argument("prop")
    c.add_argument("--tier", default=os.environ.get("VERIF_TIER", "quick"), choices=("quick", "thorough"))
    r = sub.add_parser("replay")
    r.add_argument("path")
    sub.add_parser("selftest")
    a = ap.parse_args(argv)
    if a.cmd == "check":
        from mc.runner import run_check
        seed = int(os.environ.get("VERIF_SEED", "0") or 0)
        return run_check(a.prop.upper(), a.tier, seed)
    if a.cmd == "replay":
        from mc.runner import run_replay
        return run_replay(a.path)
    if a.cmd == "selftest":
        from mc.selftest import main as st
        return st()
    return 2


if __name__ == "__main__":
    os.environ.setdefault("PYTHONHASHSEED", "0")
    sys.exit(main())
