"""Shared sweep over graph families x stage prefixes for the graph-level properties."""
from __future__ import annotations

import importlib
import os
import traceback
from typing import Any, Callable, Dict, Iterator, List, Optional, Tuple

from . import REPO
from .families import (Graph, as_named, canonical, deviation_closure, enum_closed, fig_graphs, loop_exit_family,
                       get_labeling, is_closed, lab_tag, labelings, make_scfg, set_labeling, shards)
from .kernel import CpuBudget, default_recursion, shard_map
from .runner import Acc

STAGES = ("J", "JL", "JLB")
CPU_BUDGET_S = 60.0


def exc_fingerprint(e: BaseException) -> Tuple[str, str]:
    """(exception type, innermost library frame as function + source text)."""
    tb = traceback.extract_tb(e.__traceback__)
    lib = [f for f in tb if "numba_scfg" in f.filename and "/tests/" not in f.filename]
    f = lib[-1] if lib else (tb[-1] if tb else None)
    site = f"{f.name}: {(f.line or '').strip()}" if f else "?"
    return type(e).__name__, site


def staged(g: Graph, payload: str = "basic", rename=None, include_input: bool = False):
    """Yield (stage, scfg, exception) after each pipeline stage on a fresh graph.

    After a stage raises, iteration stops (the graph is in an undefined state).
    """
    scfg = make_scfg(g, payload, rename)
    if include_input:
        yield "0", scfg, None
    steps = (("J", lambda: scfg.join_returns()), ("JL", lambda: scfg.restructure_loop()),
             ("JLB", lambda: scfg.restructure_branch()))
    for stage, fn in steps:
        try:
            with CpuBudget(CPU_BUDGET_S), default_recursion():
                fn()
        except CpuBudget.Exceeded as e:
            yield stage, scfg, e
            return
        except Exception as e:  # noqa: BLE001 - any exception is an observation
            yield stage, scfg, e
            return
        yield stage, scfg, None


# ---------------------------------------------------------------------------------------
# units of work

def units_for(spec: Dict[str, Any]) -> List[tuple]:
    """spec: {"E": max_n, "FIG": bool, "LISTS": {label: [graphs]}}"""
    out: List[tuple] = []
    for n in range(1, spec.get("E", 0) + 1):
        depth = 2 if n <= 4 else (3 if n <= 5 else (4 if n <= 6 else 5))
        for (nn, prefix) in shards(n, depth):
            out.append(("E", nn, prefix))
    if spec.get("E6_quarter"):
        # a fixed quarter of E(6) (every 4th shard of the deterministic partition) - partial by construction, reported as such
        sh = shards(6, 4)
        for i, (nn, prefix) in enumerate(sh):
            if i % 4 == 0:
                out.append(("E", nn, prefix))
    if spec.get("FIG"):
        out.append(("L", "FIG", [g for _, g in fig_graphs(REPO)]))
    for label, graphs in (spec.get("LISTS") or {}).items():
        chunk = 200
        for i in range(0, len(graphs), chunk):
            out.append(("L", label, graphs[i:i + chunk]))
    return out


def unit_graphs(unit) -> Iterator[Tuple[str, Graph]]:
    if unit[0] == "E":
        for g in enum_closed(unit[1], unit[2]):
            yield f"E{unit[1]}", g
    else:
        for g in unit[2]:
            yield unit[1], g


def _work(args):
    modname, unit, opts = args
    mod = importlib.import_module(modname)
    acc = Acc()
    relabel = opts.get("relabel") or {}
    for fam, g in unit_graphs(unit):
        acc.counters[f"graphs[{fam}]"] += 1
        mod.check_graph(g, fam, acc, opts)
        level = relabel.get(fam)
        if level is None and fam.startswith("E") and fam[1:].isdigit():
            level = relabel.get("E>=")
        if level:
            # the same graph under other block names / dict insertion orders (families.labelings)
            try:
                for lab in labelings(len(g), level):
                    set_labeling(lab)
                    acc.counters[f"graphs[{fam}~relabelled:{level}]"] += 1
                    mod.check_graph(g, fam + "~", acc, opts)
            finally:
                set_labeling(None)
    return acc


def rotate(items: list, seed: int) -> list:
    if not items:
        return items
    k = seed % len(items)
    return items[k:] + items[:k]


def sweep(modname: str, spec: Dict[str, Any], opts: Dict[str, Any], seed: int = 0) -> Acc:
    units = rotate(units_for(spec), seed)
    if spec.get("relabel") and "relabel" not in opts:
        opts = dict(opts, relabel=spec["relabel"])
    # big units first for balance: keep deterministic order otherwise
    results = shard_map(_work, [(modname, u, opts) for u in units])
    acc = Acc()
    for r in results:
        acc.merge(r)
    return acc


def graph_case(g: Graph, fam: str, stage: str, **kw) -> dict:
    d = {"family": fam, "graph": [list(r) for r in g], "stage": stage}
    lab = get_labeling()
    if lab is not None:
        d["labeling"] = {"prefix": lab[0], "names": list(lab[1]), "insertion_order": list(lab[2])}
        if len(lab) > 3:
            d["labeling"]["generator"] = lab[3]
    d.update(kw)
    return d


# ---------------------------------------------------------------------------------------
# tier specs shared by the graph-level properties

_D_CACHE: Dict[str, List[Graph]] = {}


def frontend_graphs(level: int) -> List[Graph]:
    """Distinct closed CFGs that the source front end emits for skeleton set S(level)."""
    key = f"S{level}"
    if key in _D_CACHE:
        return _D_CACHE[key]
    from .progs import skeleton_cfgs
    _D_CACHE[key] = skeleton_cfgs(level)
    return _D_CACHE[key]


def _bc_unit(unit):
    import importlib
    from numba_scfg.core.datastructures.byte_flow import ByteFlow
    from .bytecode_ref import in_domain
    from .props.c09 import code_objects
    kind, payload = unit
    label = "BC(S)" if kind == "src" else "BC(corpus)"
    codes = []
    if kind == "src":
        for _, src in payload:
            ns: Dict[str, Any] = {}
            exec(compile(src, "<bc>", "exec"), ns)
            codes.append(ns["f"].__code__)
    else:
        try:
            mod = importlib.import_module(payload)
            codes = [c for _, c in code_objects(mod)]
        except BaseException:  # noqa: BLE001
            codes = []
    out, seen = [], set()
    for code in codes:
        if in_domain(code) is not None:
            continue
        try:
            scfg = ByteFlow.from_bytecode(code).scfg
        except Exception:  # noqa: BLE001  (C09's business)
            continue
        g = {n: tuple(b._jump_targets) for n, b in scfg.graph.items()}
        if any(t not in g for r in g.values() for t in r):
            continue
        c = canonical(g)
        if c is None or c in seen or not is_closed(c):
            continue
        seen.add(c)
        out.append(c)
    return label, out


def bytecode_graphs(tier: str) -> Dict[str, List[Graph]]:
    """Closed CFGs that the BYTECODE front end produces: for the skeleton programs and for the stdlib corpus."""
    key = f"BC{tier}"
    if key in _D_CACHE:
        return _D_CACHE[key]  # type: ignore
    import importlib
    from numba_scfg.core.datastructures.byte_flow import ByteFlow
    from .bytecode_ref import in_domain
    from .progs import skeleton_sources
    from .props.c09 import CORPUS_QUICK, CORPUS_THOROUGH, code_objects
    out: Dict[str, List[Graph]] = {"BC(S)": [], "BC(corpus)": []}
    progs = list(skeleton_sources(2 if tier == "quick" else 3, "marked", loop_else_upto=2))
    units = [("src", progs[i:i + 1500]) for i in range(0, len(progs), 1500)]
    units += [("mod", m) for m in (CORPUS_QUICK if tier == "quick" else sorted(set(CORPUS_THOROUGH)))]
    seen = {"BC(S)": set(), "BC(corpus)": set()}
    for label, graphs in shard_map(_bc_unit, units):
        for c in graphs:
            if c not in seen[label]:
                seen[label].add(c)
                out[label].append(c)
    _D_CACHE[key] = out  # type: ignore
    return out


def frontend_corpus_s3() -> List[Graph]:
    """Stored corpus: CFGs of the source front end for S(3)/CH(3) (see tools/gen_frontend_corpus.py)."""
    import json
    path = os.path.join(os.path.dirname(os.path.abspath(__file__)), "data", "frontend_cfgs_s3.json")
    if not os.path.exists(path):
        return []
    return [tuple(tuple(r) for r in g) for g in json.load(open(path))["graphs"]]


def graph_spec(tier: str, light: bool = False) -> Dict[str, Any]:
    """Families for the graph-level properties (DESIGN section 3)."""
    lists: Dict[str, List[Graph]] = {}
    s3 = frontend_corpus_s3()
    if s3:
        lists["S3"] = s3 if not light else s3[::8]
    lx = loop_exit_family(3, 3) if tier == "quick" else loop_exit_family(4, 3)
    lists["LX"] = lx if not light else lx[::4]
    try:
        from .progs import arm_cfgs, big_graphs
        lists["BIG"] = big_graphs(tier)
        arms = arm_cfgs()
        lists["ARMS"] = arms if not light else arms[::4]
    except ImportError:
        pass
    try:
        if tier == "quick":
            s1 = frontend_graphs(1)
            lists["D(S1,2)"] = deviation_closure(s1, 1 if light else 2)
            lists["S2"] = frontend_graphs(2)
        else:
            s1 = frontend_graphs(1)
            s2 = frontend_graphs(2)
            lists["D(S1,3)"] = deviation_closure(s1, 2 if light else 3)
            lists["D(S2,1)"] = deviation_closure(s2, 0 if light else 1)
            if s3 and not light:
                # one goto away from structured programs with three compound statements (graphs up to 14 blocks)
                base = s3[::16]
                bs = set(base)
                lists["D(S3/16,1)"] = [g for g in deviation_closure(base, 1) if g not in bs]
        if not light:
            lists.update(bytecode_graphs(tier))
    except ImportError:
        pass
    emax = (5 if tier == "quick" else 6) - (1 if light and tier != "quick" else 0)
    if os.environ.get("VERIF_E_MAX"):
        emax = int(os.environ["VERIF_E_MAX"])      # opt-in deeper sweep, e.g. VERIF_E_MAX=7 (4.5x10^6 graphs)
    # the same graphs under other names / insertion orders (families.labelings): every naming of the small classes
    if tier == "quick":
        relabel = {"E2": "all+ns", "E3": "all+ns", "E4": "all+ns", "E5": "one" if light else "few", "S2": "one", "D(S1,2)": "one", "FIG": "few",
                   "LX": None if light else "eo"}
    else:
        relabel = {"E2": "all+ns", "E3": "all+ns", "E4": "all+ns", "E5": "few" if light else "few+ns", "E6": None if light else "one",
                   "S2": "few", "D(S1,3)": "one", "D(S2,1)": "one", "FIG": "few", "BC(S)": "one", "LX": "eo"}
    if os.environ.get("VERIF_NO_RELABEL"):
        relabel = {}
    return {"E": emax, "FIG": True, "LISTS": lists, "relabel": relabel,
            "E6_quarter": tier == "quick" and not light}
