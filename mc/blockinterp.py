"""Block interpreter for CFGs of AST blocks (C08): the checker's operational reading of the statement.

Run the block's statements in one namespace; with two successors evaluate the last expression and
take the first successor if true, else the second; stop at a return.
"""
from __future__ import annotations

import ast
from typing import Any, Dict, List, Tuple

from .env import Env, Runaway, normalise_exc
from .kernel import Chooser, Horizon

NOOPS = (ast.Pass, ast.Break, ast.Continue)
STEP_LIMIT = 20000


class Compiled:
    """name -> (list of (kind, code)), successors"""

    def __init__(self, blocks: Dict[str, Tuple[list, Tuple[str, ...]]], entry: str = "0"):
        self.entry = entry
        self.prog = {}
        for name, (tree, succ) in blocks.items():
            steps = []
            body = list(tree)
            test = None
            if len(succ) == 2:
                if not body:
                    raise ValueError(f"block {name} has two successors and no test")
                test = body.pop()
                if isinstance(test, ast.Expr):
                    test = test.value
                if not isinstance(test, ast.expr):
                    raise ValueError(f"block {name} has two successors but ends in {type(test).__name__}")
            for st in body:
                if isinstance(st, NOOPS):
                    continue
                if isinstance(st, ast.Return):
                    if st.value is None:
                        steps.append(("retnone", None))
                    else:
                        e = ast.Expression(body=st.value)
                        ast.fix_missing_locations(e)
                        steps.append(("ret", compile(e, f"<block {name}>", "eval")))
                    continue
                if isinstance(st, ast.expr):
                    # a bare expression in statement position (only legal as the last item)
                    e = ast.Expression(body=st)
                    ast.fix_missing_locations(e)
                    steps.append(("eval", compile(e, f"<block {name}>", "eval")))
                    continue
                m = ast.Module(body=[st], type_ignores=[])
                ast.fix_missing_locations(m)
                steps.append(("exec", compile(m, f"<block {name}>", "exec")))
            tcode = None
            if test is not None:
                e = ast.Expression(body=test)
                ast.fix_missing_locations(e)
                tcode = compile(e, f"<block {name} test>", "eval")
            self.prog[name] = (steps, tcode, tuple(succ))

    def run(self, env: Env, ch: Chooser):
        env.reset(ch)
        ns = env.namespace()
        try:
            out = self._run(ns)
        except Horizon:
            out = ("cut",)
        except Runaway:
            out = ("exc", "Runaway(non-terminating)")
        except Exception as e:  # noqa: BLE001
            out = ("exc", normalise_exc(e))
        return tuple(env.log), out

    def _run(self, ns):
        name = self.entry
        n = 0
        while True:
            n += 1
            if n > STEP_LIMIT:
                return ("exc", "StepLimit")
            if name not in self.prog:
                return ("exc", f"DanglingBlock")
            steps, tcode, succ = self.prog[name]
            for kind, code in steps:
                if kind == "exec":
                    exec(code, ns)
                elif kind == "eval":
                    eval(code, ns)
                elif kind == "ret":
                    return ("ret", eval(code, ns))
                elif kind == "retnone":
                    return ("ret", None)
            if tcode is not None:
                name = succ[0] if eval(tcode, ns) else succ[1]
            elif len(succ) == 1:
                name = succ[0]
            elif len(succ) == 0:
                return ("exc", "FellOffEnd")
            else:
                return ("exc", "TooManySuccessors")
