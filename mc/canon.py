"""Exact canonical dump of a hierarchy (DESIGN 2.1): keeps names and dict insertion order."""
from __future__ import annotations

import ast
import hashlib
from typing import Any

from numba_scfg.core.datastructures.basic_block import (
    BasicBlock, PythonASTBlock, PythonBytecodeBlock, RegionBlock, SyntheticAssignment, SyntheticBranch,
)


def block_payload(b: BasicBlock) -> Any:
    if isinstance(b, RegionBlock):
        return ("region", b.kind, b.header, b.exiting,
                b.parent_region.name if b.parent_region is not None else None,
                cdump(b.subregion) if b.subregion is not None else None)
    if isinstance(b, SyntheticBranch):
        return ("branch", b.variable, tuple(b.branch_value_table.items()))
    if isinstance(b, SyntheticAssignment):
        return ("assign", tuple(b.variable_assignment.items()))
    if isinstance(b, PythonBytecodeBlock):
        return ("bc", b.begin, b.end)
    if isinstance(b, PythonASTBlock):
        return ("ast", b.begin, b.end, tuple(ast.dump(s) for s in b.tree))
    return ()


def cdump(scfg) -> tuple:
    out = []
    for name, b in scfg.graph.items():
        out.append((name, type(b).__name__, b.name, tuple(b._jump_targets), tuple(b.backedges), block_payload(b)))
    return tuple(out)


def digest(obj: Any) -> str:
    return hashlib.sha256(repr(obj).encode()).hexdigest()[:16]


def pretty(scfg, indent: int = 0) -> str:
    """Human-readable rendering of a hierarchy for replay artefacts."""
    pad = "  " * indent
    lines = []
    for name, b in scfg.graph.items():
        extra = ""
        if isinstance(b, RegionBlock):
            extra = f" kind={b.kind} header={b.header} exiting={b.exiting} parent={b.parent_region.name if b.parent_region else None}"
        elif isinstance(b, SyntheticBranch):
            extra = f" var={b.variable} table={dict(b.branch_value_table)}"
        elif isinstance(b, SyntheticAssignment):
            extra = f" assign={dict(b.variable_assignment)}"
        lines.append(f"{pad}{name}: {type(b).__name__} jt={list(b._jump_targets)} be={list(b.backedges)}{extra}")
        if isinstance(b, RegionBlock) and b.subregion is not None:
            lines.append(pretty(b.subregion, indent + 1))
    return "\n".join(lines)
