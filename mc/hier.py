"""Read-only access to a (partially) restructured hierarchy (DESIGN 2.2)."""
from __future__ import annotations

from typing import Dict, Iterator, List, NamedTuple, Optional, Tuple

from numba_scfg.core.datastructures.basic_block import BasicBlock, RegionBlock


class Entry(NamedTuple):
    block: BasicBlock
    owner: object            # the SCFG whose graph holds the block
    region: Optional[RegionBlock]   # RegionBlock whose subregion is owner (None at top level)
    depth: int


class Hier:
    def __init__(self, scfg):
        self.top = scfg
        self.flat: Dict[str, Entry] = {}
        self.problems: List[Tuple[str, str]] = []   # (clause, detail)
        self.levels: List[Tuple[object, Optional[RegionBlock], int]] = []
        self._walk(scfg, None, 0, set())
        top_region = getattr(scfg, "region", None)
        if top_region is not None and getattr(top_region, "name", None) in self.flat:
            self.problems.append(("names/duplicate", f"name {top_region.name!r} names both the graph's own (meta) region and a "
                                                     f"{type(self.flat[top_region.name].block).__name__} inside it"))

    def _walk(self, scfg, region, depth, seen_graphs):
        if id(scfg) in seen_graphs:
            self.problems.append(("names/graph-shared", f"sub-graph reached twice below {region.name if region else None}"))
            return
        seen_graphs.add(id(scfg))
        self.levels.append((scfg, region, depth))
        for key, b in scfg.graph.items():
            if key != b.name:
                self.problems.append(("names/key-mismatch", f"key {key!r} holds block named {b.name!r}"))
            if key in self.flat:
                self.problems.append(("names/duplicate", f"name {key!r} occurs twice in the hierarchy"))
            else:
                self.flat[key] = Entry(b, scfg, region, depth)
            if isinstance(b, RegionBlock):
                if b.subregion is None:
                    self.problems.append(("region/no-subregion", f"region {key!r} has no subregion"))
                else:
                    self._walk(b.subregion, b, depth + 1, seen_graphs)

    # -- queries ---------------------------------------------------------------------
    def leaves(self) -> Dict[str, BasicBlock]:
        return {k: e.block for k, e in self.flat.items() if not isinstance(e.block, RegionBlock)}

    def regions(self) -> Dict[str, RegionBlock]:
        return {k: e.block for k, e in self.flat.items() if isinstance(e.block, RegionBlock)}  # type: ignore

    def resolve_flat(self, name: str) -> Optional[str]:
        """Descend region headers to the innermost non-region block; None if dangling."""
        hops = 0
        while True:
            e = self.flat.get(name)
            if e is None:
                return None
            b = e.block
            if not isinstance(b, RegionBlock):
                return name
            if b.header is None:
                return None
            name = b.header
            hops += 1
            if hops > len(self.flat) + 1:
                return None

    def resolve_exiting(self, name: str) -> Optional[str]:
        hops = 0
        while True:
            e = self.flat.get(name)
            if e is None:
                return None
            b = e.block
            if not isinstance(b, RegionBlock):
                return name
            if b.exiting is None:
                return None
            name = b.exiting
            hops += 1
            if hops > len(self.flat) + 1:
                return None

    def scope_names(self, owner, region: Optional[RegionBlock]) -> set:
        """Keys of the owning graph and of all enclosing graphs (by structural containment)."""
        out = set(owner.graph.keys())
        r = region
        while r is not None:
            e = self.flat.get(r.name)
            if e is None:
                break
            out |= set(e.owner.graph.keys())
            r = e.region
        return out

    def enclosing(self, name: str) -> List[RegionBlock]:
        """Regions that structurally contain ``name``, innermost first."""
        out = []
        e = self.flat.get(name)
        r = e.region if e else None
        while r is not None:
            out.append(r)
            e = self.flat.get(r.name)
            r = e.region if e else None
        return out

    def leaves_of(self, region: RegionBlock) -> set:
        out = set()
        stack = [region]
        while stack:
            r = stack.pop()
            if r.subregion is None:
                continue
            for k, b in r.subregion.graph.items():
                if isinstance(b, RegionBlock):
                    stack.append(b)
                else:
                    out.add(k)
        return out
