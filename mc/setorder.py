"""Set-order scheduler (DESIGN 2.5): makes the iteration order of every ``set`` created by the
library a decision of the explorer.

``install()`` must run before ``numba_scfg`` is imported.  Library modules (outside tests/) are
loaded from the working tree through an AST rewriter: set displays and set comprehensions build
``VSet``; the module namespace is seeded with ``set = VSet`` so that ``set()``, ``set(x)`` and
``defaultdict(set)`` build ``VSet`` too.
"""
from __future__ import annotations

import ast
import importlib.abc
import importlib.machinery
import importlib.util
import itertools
import os
import sys
from typing import Any, List, Optional

from . import REPO
from .kernel import Chooser

_CHOOSER: Optional[Chooser] = None
STATS = {"choice_points": 0, "iterations": 0}


def set_chooser(ch: Optional[Chooser]):
    global _CHOOSER
    _CHOOSER = ch


def _sorted_elems(s) -> list:
    items = list(set.__iter__(s))
    try:
        return sorted(items)
    except TypeError:
        return sorted(items, key=lambda x: (type(x).__name__, repr(x)))


_PERMS = {}


def _menu(k: int) -> List[tuple]:
    """Permutations offered for k elements: sorted, reversed, proper rotations, and all others if k <= 4."""
    if k in _PERMS:
        return _PERMS[k]
    ident = tuple(range(k))
    out = [ident]
    rev = tuple(reversed(ident))
    if rev not in out:
        out.append(rev)
    # every proper rotation up to 6 elements; for larger sets the rotations by 1, k//2 and k-1 (each element still gets to be
    # first, last or in the middle in some offered order)
    for r in (range(1, k) if k <= 6 else (1, k // 2, k - 1)):
        rot = ident[r:] + ident[:r]
        if rot not in out:
            out.append(rot)
    if k <= 4:
        for p in itertools.permutations(ident):
            if p not in out:
                out.append(p)
    _PERMS[k] = out
    return out


def _where() -> str:
    f = sys._getframe(2)
    while f is not None and ("setorder" in f.f_code.co_filename):
        f = f.f_back
    if f is None:
        return "?"
    return f"{os.path.basename(f.f_code.co_filename)}:{f.f_code.co_name}:{f.f_lineno}"


class VSet(set):
    """A set whose iteration order (and pop choice) is decided by the explorer."""

    def __iter__(self):
        items = _sorted_elems(self)
        STATS["iterations"] += 1
        k = len(items)
        if k >= 2 and _CHOOSER is not None:
            menu = _menu(k)
            STATS["choice_points"] += 1
            c = _CHOOSER.choose(len(menu), ("iter", _where(), k))
            perm = menu[c]
            items = [items[i] for i in perm]
        return iter(items)

    def pop(self):
        items = _sorted_elems(self)
        if not items:
            raise KeyError("pop from an empty set")
        c = 0
        if len(items) >= 2 and _CHOOSER is not None:
            STATS["choice_points"] += 1
            c = _CHOOSER.choose(len(items), ("pop", _where(), len(items)))
        x = items[c]
        set.remove(self, x)
        return x

    # stay closed under the operators / methods that build new sets
    def _wrap(self, r):
        return VSet(r) if type(r) is set else r

    def __or__(self, o):
        return VSet(set.__or__(self, o))

    def __and__(self, o):
        return VSet(set.__and__(self, o))

    def __sub__(self, o):
        return VSet(set.__sub__(self, o))

    def __xor__(self, o):
        return VSet(set.__xor__(self, o))

    def __ror__(self, o):
        return VSet(set.__ror__(self, o))

    def __rand__(self, o):
        return VSet(set.__rand__(self, o))

    def __rsub__(self, o):
        return VSet(set.__rsub__(self, o))

    def union(self, *o):
        return VSet(set.union(self, *map(quiet, o)))

    def intersection(self, *o):
        return VSet(set.intersection(self, *map(quiet, o)))

    def difference(self, *o):
        return VSet(set.difference(self, *map(quiet, o)))

    def symmetric_difference(self, o):
        return VSet(set.symmetric_difference(self, quiet(o)))

    def copy(self):
        return VSet(set.copy(self))

    def __repr__(self):
        return "VSet(" + repr(_sorted_elems(self)) + ")"

    def __reduce__(self):
        return (VSet, (list(set.__iter__(self)),))


def quiet(x):
    """Hand a VSet to an order-insensitive consumer without creating a choice point."""
    if isinstance(x, VSet):
        return set(set.__iter__(x)) if False else _Quiet(x)
    return x


class _Quiet:
    """Iterable view of a VSet in sorted order, no choice point (for sorted/len/frozenset/set consumers)."""
    __slots__ = ("s",)

    def __init__(self, s):
        self.s = s

    def __iter__(self):
        return iter(_sorted_elems(self.s))

    def __len__(self):
        return set.__len__(self.s)

    def __contains__(self, x):
        return set.__contains__(self.s, x)


QUIET_CONSUMERS = {"sorted", "len", "frozenset", "set", "min", "max", "sum"}
# calls whose result depends on the order in which their argument is iterated
ORDERED_CONSUMERS = {"list", "tuple", "iter", "enumerate", "zip", "deque", "sorted", "min", "max", "next", "map", "filter", "dict"}


def own(x):
    """Iteration sites: a plain ``set`` / ``frozenset`` that reached the library code without passing a rewritten constructor
    (e.g. ``dict.keys() & names``, a set returned by a builtin) is handed to the explorer as well."""
    if type(x) is set or type(x) is frozenset:
        return VSet(x)
    return x


class _Rewriter(ast.NodeTransformer):
    def visit_Set(self, node: ast.Set):
        self.generic_visit(node)
        return ast.copy_location(ast.Call(func=ast.Name(id="VSet_", ctx=ast.Load()),
                                          args=[ast.List(elts=node.elts, ctx=ast.Load())], keywords=[]), node)

    def visit_SetComp(self, node: ast.SetComp):
        self.generic_visit(node)
        return ast.copy_location(ast.Call(func=ast.Name(id="VSet_", ctx=ast.Load()),
                                          args=[ast.ListComp(elt=node.elt, generators=node.generators)], keywords=[]), node)

    def _own(self, e):
        return ast.copy_location(ast.Call(func=ast.Name(id="vs_own_", ctx=ast.Load()), args=[e], keywords=[]), e)

    def visit_For(self, node: ast.For):
        self.generic_visit(node)
        node.iter = self._own(node.iter)
        return node

    def visit_comprehension(self, node: ast.comprehension):
        self.generic_visit(node)
        node.iter = self._own(node.iter)
        return node

    def visit_Starred(self, node: ast.Starred):
        self.generic_visit(node)
        if isinstance(node.ctx, ast.Load):
            node.value = self._own(node.value)
        return node

    def visit_Call(self, node: ast.Call):
        self.generic_visit(node)
        plain_quiet = isinstance(node.func, ast.Name) and node.func.id in QUIET_CONSUMERS and len(node.args) == 1 and not node.keywords
        if isinstance(node.func, ast.Name) and node.func.id in ORDERED_CONSUMERS and not plain_quiet:
            node.args = [a if isinstance(a, ast.Starred) else self._own(a) for a in node.args]
        # a consumer is order-insensitive only in its plain form: with key= (ties!), default= or further arguments the order in
        # which the set's elements arrive can show in the result
        if isinstance(node.func, ast.Name) and node.func.id in QUIET_CONSUMERS and len(node.args) == 1 and not node.keywords:
            node.args[0] = ast.copy_location(ast.Call(func=ast.Name(id="vs_quiet_", ctx=ast.Load()),
                                                      args=[node.args[0]], keywords=[]), node.args[0])
        return node


class _Loader(importlib.abc.Loader):
    def __init__(self, path):
        self.path = path

    def create_module(self, spec):
        return None

    def exec_module(self, module):
        src = open(self.path).read()
        tree = _Rewriter().visit(ast.parse(src, self.path))
        ast.fix_missing_locations(tree)
        code = compile(tree, self.path, "exec", dont_inherit=True)
        module.__dict__["set"] = VSet
        module.__dict__["VSet_"] = VSet
        module.__dict__["vs_quiet_"] = quiet
        module.__dict__["vs_own_"] = own
        module.__file__ = self.path
        exec(code, module.__dict__)


class _Finder(importlib.abc.MetaPathFinder):
    def find_spec(self, fullname, path=None, target=None):
        if not (fullname == "numba_scfg" or fullname.startswith("numba_scfg.")):
            return None
        if fullname.startswith("numba_scfg.tests"):
            return None
        base = os.path.join(REPO, *fullname.split("."))
        if os.path.isdir(base):
            init = os.path.join(base, "__init__.py")
            if not os.path.exists(init):
                return None
            return importlib.util.spec_from_file_location(fullname, init, loader=_Loader(init),
                                                          submodule_search_locations=[base])
        f = base + ".py"
        if os.path.exists(f):
            return importlib.util.spec_from_file_location(fullname, f, loader=_Loader(f))
        return None


_installed = False


def install():
    global _installed
    if _installed:
        return
    if any(m == "numba_scfg" or m.startswith("numba_scfg.") for m in sys.modules):
        raise RuntimeError("setorder.install() must run before numba_scfg is imported")
    sys.meta_path.insert(0, _Finder())
    _installed = True


def rewritten_modules() -> List[str]:
    return sorted(m for m, mod in sys.modules.items()
                  if (m == "numba_scfg" or m.startswith("numba_scfg.")) and "VSet_" in getattr(mod, "__dict__", {}))
