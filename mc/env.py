"""Environment oracle for executing Python under the stateless explorer (DESIGN 2.4).

Every source of data-dependent control is an oracle call answered by a Chooser; every oracle
call is logged.  The observable of a run is (call log, outcome).
"""
from __future__ import annotations

import signal
from typing import Any, Callable, List, Optional, Tuple

from .kernel import Chooser, Horizon


class Boom(Exception):
    """Raised by an oracle when the explorer picks the 'raise' answer."""


class Runaway(BaseException):
    """The code under test makes oracle calls without end (or spins) - it is cut and reported as such."""


MAX_LOG = 1500          # oracle calls per execution; programs of the families need < 200
SPIN_CPU_S = 1.0        # CPU-seconds for one execution that makes no oracle call at all


class Tok:
    """Opaque value returned by traced calls; supports the operators used by X(d)."""
    __slots__ = ("k",)

    def __init__(self, k):
        self.k = k

    def __repr__(self):
        return f"Tok({self.k!r})"

    def __eq__(self, o):
        return isinstance(o, Tok) and o.k == self.k

    def __hash__(self):
        return hash(("Tok", self.k))


class Val:
    """Oracle-backed value: truthiness, comparison, arithmetic, attribute and subscript are logged."""

    def __init__(self, env: "Env", k, truth: bool):
        object.__setattr__(self, "_env", env)
        object.__setattr__(self, "_k", k)
        object.__setattr__(self, "_truth", truth)

    def __bool__(self):
        # truthiness is not an external call: `a and b` desugared through a temporary tests a twice
        return self._truth

    def __repr__(self):
        return f"Val({self._k!r},{self._truth})"

    def __eq__(self, o):
        return isinstance(o, Val) and o._k == self._k and o._truth == self._truth

    def __hash__(self):
        return hash(("Val", self._k, self._truth))

    def _derive(self, op, other=None):
        ok = other._k if isinstance(other, Val) else other
        self._env.log.append((op, self._k, ok))
        return Val(self._env, (op, self._k, ok), self._env.ask_truth((op, self._k, ok)))

    def __lt__(self, o):
        return self._derive("lt", o)

    def __add__(self, o):
        return self._derive("add", o)

    def __radd__(self, o):
        return self._derive("radd", o)

    def __iadd__(self, o):
        return self._derive("iadd", o)

    def __neg__(self):
        return self._derive("neg")

    def __getattr__(self, name):
        if name.startswith("_"):
            raise AttributeError(name)
        return self._derive("attr:" + name)

    def __getitem__(self, i):
        return self._derive("item", i)


class _Log(list):
    def append(self, x):
        if len(self) >= MAX_LOG:
            raise Runaway()
        list.append(self, x)


class Env:
    """One instance per compiled program; ``reset`` before each run."""

    ITERS = ((), (1,), (1, 2))

    def __init__(self, raising: bool = False):
        self.raising = raising
        self.log: List[tuple] = []
        self.ch: Optional[Chooser] = None

    def reset(self, ch: Chooser):
        self.ch = ch
        self.log = _Log()

    # -- answers ----------------------------------------------------------------------
    def ask_truth(self, label) -> bool:
        n = 3 if self.raising else 2
        a = self.ch.choose(n, ("truth", label))
        if a == 2:
            self.log.append(("raise", label))
            raise Boom(label)
        return bool(a)

    def t(self, k):
        self.log.append(("t", k))
        return self.ask_truth(("t", k))

    def v(self, k):
        self.log.append(("v", k))
        return Val(self, k, self.ask_truth(("v", k)))

    def c(self, k, *args):
        self.log.append(("c", k, args))
        if self.raising:
            a = self.ch.choose(2, ("c", k))
            if a == 1:
                self.log.append(("raise", ("c", k)))
                raise Boom(k)
        return Tok(k)

    def g(self, *args):
        self.log.append(("g", args))
        return Val(self, ("g",) + tuple(a._k if isinstance(a, Val) else a for a in args), self.ask_truth(("g",)))

    def it(self, k):
        self.log.append(("it", k))
        a = self.ch.choose(len(self.ITERS), ("it", k))
        return self.ITERS[a]

    def it2(self, k):
        self.log.append(("it2", k))
        a = self.ch.choose(3, ("it2", k))
        return ((), ((1, 2),), ((1, 2), (3, 4)))[a]

    def w(self, x):
        """iterable derived from an arbitrary expression value (for-iter carrier)."""
        self.log.append(("w", x._k if isinstance(x, Val) else x))
        a = self.ch.choose(2, ("w",))
        return ((), (1,))[a]

    def namespace(self) -> dict:
        return {"t": self.t, "v": self.v, "c": self.c, "g": self.g, "it": self.it, "it2": self.it2, "w": self.w}


_RUNAWAYS = [0]          # per process: after many runaway executions the spin budget shrinks (a broken tree must not take hours)


def _spin_handler(signum, frame):
    raise Runaway()


def normalise_exc(e: BaseException) -> str:
    n = type(e).__name__
    return "NameError" if n == "UnboundLocalError" else n


def execute(fn: Callable[[], Any], env: Env, ch: Chooser) -> Tuple[tuple, tuple]:
    """Run fn under chooser; returns (log, outcome)."""
    env.reset(ch)
    old = signal.signal(signal.SIGVTALRM, _spin_handler)
    signal.setitimer(signal.ITIMER_VIRTUAL, SPIN_CPU_S if _RUNAWAYS[0] < 20 else SPIN_CPU_S / 5)
    try:
        r = fn()
        out = ("ret", r)
    except Horizon:
        out = ("cut",)
    except Runaway:
        _RUNAWAYS[0] += 1
        out = ("exc", "Runaway(non-terminating)")
    except RecursionError:
        out = ("exc", "RecursionError")
    except Exception as e:  # noqa: BLE001
        out = ("exc", normalise_exc(e))
    finally:
        signal.setitimer(signal.ITIMER_VIRTUAL, 0)
        signal.signal(signal.SIGVTALRM, old)
    return tuple(env.log[:MAX_LOG]), out


def compile_fn(src: str, name: str, env: Env) -> Callable[[], Any]:
    ns = env.namespace()
    exec(compile(src, f"<{name}>", "exec"), ns)
    return ns[name]
